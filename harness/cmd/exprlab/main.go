// Command exprlab runs expression-lab cases (conditions and updates with their bindings) through
// interpreter.Language directly and through both client APIs.  Every case runs in a worker child process: a
// worker that dies (Go fatal error such as stack overflow) or stalls is replaced, and the case it was working on
// is recorded as "crash" / "timeout" instead of being lost.
package main

import (
	"bufio"
	"encoding/json"
	"flag"
	"fmt"
	"io"
	"os"
	"os/exec"
	"time"

	"verifharness/h"
)

func main() {
	in := flag.String("cases", "", "cases file (one JSON case per line)")
	out := flag.String("out", "lab.ndjson", "output trace")
	worker := flag.Bool("worker", false, "internal: process cases from stdin")
	perCase := flag.Duration("timeout", 15*time.Second, "time allowed per case")
	flag.Parse()
	if *worker {
		runWorker()
		return
	}
	data, err := os.ReadFile(*in)
	if err != nil {
		fatal(err)
	}
	var cases [][]byte
	sc := bufio.NewScanner(bytesReader(data))
	sc.Buffer(make([]byte, 1<<20), 1<<26)
	for sc.Scan() {
		if len(sc.Bytes()) > 0 {
			cases = append(cases, append([]byte{}, sc.Bytes()...))
		}
	}
	fo, err := os.Create(*out)
	if err != nil {
		fatal(err)
	}
	w := bufio.NewWriterSize(fo, 1<<20)
	defer func() { w.Flush(); fo.Close() }()

	i := 0
	for i < len(cases) {
		cmd := exec.Command(os.Args[0], "-worker")
		stdin, _ := cmd.StdinPipe()
		stdout, _ := cmd.StdoutPipe()
		cmd.Stderr = io.Discard
		if err := cmd.Start(); err != nil {
			fatal(err)
		}
		go func(from int) {
			bw := bufio.NewWriter(stdin)
			for _, c := range cases[from:] {
				bw.Write(c)
				bw.WriteByte('\n')
			}
			bw.Flush()
			stdin.Close()
		}(i)
		lines := make(chan []byte)
		go func() {
			rs := bufio.NewScanner(stdout)
			rs.Buffer(make([]byte, 1<<20), 1<<26)
			for rs.Scan() {
				lines <- append([]byte{}, rs.Bytes()...)
			}
			close(lines)
		}()
		dead := ""
	loop:
		for i < len(cases) {
			select {
			case l, ok := <-lines:
				if !ok {
					dead = "crash"
					break loop
				}
				w.Write(l)
				w.WriteByte('\n')
				i++
			case <-time.After(*perCase):
				dead = "timeout"
				break loop
			}
		}
		cmd.Process.Kill()
		cmd.Wait()
		if i < len(cases) && dead != "" {
			// the worker died on case i: record it and go on with the next one
			c, err := h.ParseLabCase(cases[i])
			if err != nil {
				fatal(err)
			}
			res := map[string]h.LabOut{}
			for _, ch := range []string{"lang", "v1", "v2"} {
				res[ch] = h.LabOut{O: dead, After: h.OptItem{I: h.Item{}}}
			}
			if c.Op == "Match" || c.Op == "MatchText" {
				res["scan"] = h.LabOut{O: dead, After: h.OptItem{I: h.Item{}}}
			}
			l, _ := h.LabLine(c, res)
			w.Write(l)
			w.WriteByte('\n')
			i++
		}
	}
}

func runWorker() {
	sc := bufio.NewScanner(os.Stdin)
	sc.Buffer(make([]byte, 1<<20), 1<<26)
	w := bufio.NewWriter(os.Stdout)
	for sc.Scan() {
		c, err := h.ParseLabCase(sc.Bytes())
		if err != nil {
			fatal(err)
		}
		res := h.RunLab(c)
		l, err := h.LabLine(c, res)
		if err != nil {
			fatal(err)
		}
		w.Write(l)
		w.WriteByte('\n')
		w.Flush()
	}
}

type br struct {
	b []byte
	i int
}

func (r *br) Read(p []byte) (int, error) {
	if r.i >= len(r.b) {
		return 0, io.EOF
	}
	n := copy(p, r.b[r.i:])
	r.i += n
	return n, nil
}

func bytesReader(b []byte) io.Reader { return &br{b: b} }

func fatal(err error) {
	fmt.Fprintln(os.Stderr, "exprlab:", err)
	_ = json.Valid
	os.Exit(2)
}
