// Command exprlab runs expression-lab cases (conditions and updates with their bindings) through
// interpreter.Language directly and through both client APIs.  Every case runs in a worker child process: a
// worker that dies (Go fatal error such as stack overflow) or stalls is replaced, and the case it was working on
// is recorded as "crash" / "timeout" instead of being lost.
package main

import (
	"bufio"
	"encoding/json"
	"flag"
	"fmt"
	"io"
	"os"
	"os/exec"
	"strconv"
	"strings"
	"time"

	"verifharness/h"
)

func main() {
	in := flag.String("cases", "", "cases file (one JSON case per line)")
	out := flag.String("out", "lab.ndjson", "output trace")
	worker := flag.Bool("worker", false, "internal: process cases from stdin")
	perCase := flag.Duration("timeout", 15*time.Second, "time allowed per case")
	flag.Parse()
	if *worker {
		runWorker()
		return
	}
	data, err := os.ReadFile(*in)
	if err != nil {
		fatal(err)
	}
	var cases [][]byte
	sc := bufio.NewScanner(bytesReader(data))
	sc.Buffer(make([]byte, 1<<20), 1<<26)
	for sc.Scan() {
		if len(sc.Bytes()) > 0 {
			cases = append(cases, append([]byte{}, sc.Bytes()...))
		}
	}
	fo, err := os.Create(*out)
	if err != nil {
		fatal(err)
	}
	w := bufio.NewWriterSize(fo, 1<<20)
	defer func() { w.Flush(); fo.Close() }()

	i := 0
	for i < len(cases) {
		cmd := exec.Command(os.Args[0], "-worker")
		stdin, _ := cmd.StdinPipe()
		stdout, _ := cmd.StdoutPipe()
		cmd.Stderr = io.Discard
		if err := cmd.Start(); err != nil {
			fatal(err)
		}
		go func(from int) {
			bw := bufio.NewWriter(stdin)
			for _, c := range cases[from:] {
				bw.Write(c)
				bw.WriteByte('\n')
			}
			bw.Flush()
			stdin.Close()
		}(i)
		lines := make(chan []byte)
		go func() {
			rs := bufio.NewScanner(stdout)
			rs.Buffer(make([]byte, 1<<20), 1<<26)
			for rs.Scan() {
				lines <- append([]byte{}, rs.Bytes()...)
			}
			close(lines)
		}()
		dead := ""
		// A case is "timeout" only if the worker really is stuck on it: it burnt more than 10 s of CPU time on the case (a loop), or all
		// its threads sleep and its CPU time stands still across two looks (a deadlock). A worker that is merely waiting for a CPU on a
		// loaded machine is waited for (at most 15 minutes per case).
		cpuAtLine, lastCPU, idleLooks, waited := procCPU(cmd.Process.Pid), int64(-1), 0, time.Duration(0)
	loop:
		for i < len(cases) {
			select {
			case l, ok := <-lines:
				if !ok {
					dead = "crash"
					break loop
				}
				w.Write(l)
				w.WriteByte('\n')
				i++
				cpuAtLine, lastCPU, idleLooks, waited = procCPU(cmd.Process.Pid), -1, 0, 0
			case <-time.After(*perCase):
				waited += *perCase
				now := procCPU(cmd.Process.Pid)
				if now-cpuAtLine >= 10*ticksPerSecond || waited > 15*time.Minute {
					dead = "timeout"
					break loop
				}
				if now == lastCPU && allThreadsSleep(cmd.Process.Pid) {
					idleLooks++
				} else {
					idleLooks = 0
				}
				lastCPU = now
				if idleLooks >= 2 {
					dead = "timeout"
					break loop
				}
			}
		}
		cmd.Process.Kill()
		cmd.Wait()
		if i < len(cases) && dead != "" {
			// the worker died on case i: record it and go on with the next one
			c, err := h.ParseLabCase(cases[i])
			if err != nil {
				fatal(err)
			}
			res := map[string]h.LabOut{}
			for _, ch := range []string{"lang", "v1", "v2"} {
				res[ch] = h.LabOut{O: dead, After: h.OptItem{I: h.Item{}}}
			}
			if c.Op == "Match" || c.Op == "MatchText" {
				res["scan"] = h.LabOut{O: dead, After: h.OptItem{I: h.Item{}}}
			}
			l, _ := h.LabLine(c, res)
			w.Write(l)
			w.WriteByte('\n')
			i++
		}
	}
}

const ticksPerSecond = 100 // USER_HZ on Linux

// procCPU is the CPU time (user + system, in clock ticks) a process has used so far; 0 if unknown.
func procCPU(pid int) int64 {
	b, err := os.ReadFile(fmt.Sprintf("/proc/%d/stat", pid))
	if err != nil {
		return 0
	}
	return statCPU(b)
}

// statCPU reads utime + stime from the text of a /proc/.../stat file (fields 14 and 15; the command name in field 2 may hold blanks).
func statCPU(b []byte) int64 {
	s := string(b)
	if k := strings.LastIndex(s, ")"); k >= 0 {
		f := strings.Fields(s[k+1:])
		if len(f) > 13 {
			u, _ := strconv.ParseInt(f[11], 10, 64)
			v, _ := strconv.ParseInt(f[12], 10, 64)
			return u + v
		}
	}
	return 0
}

// allThreadsSleep tells whether every thread of the process is in state S (interruptible sleep): nobody runs, nobody waits for a CPU.
func allThreadsSleep(pid int) bool {
	ents, err := os.ReadDir(fmt.Sprintf("/proc/%d/task", pid))
	if err != nil || len(ents) == 0 {
		return false
	}
	for _, e := range ents {
		b, err := os.ReadFile(fmt.Sprintf("/proc/%d/task/%s/stat", pid, e.Name()))
		if err != nil {
			return false
		}
		s := string(b)
		k := strings.LastIndex(s, ")")
		if k < 0 || k+2 >= len(s) || s[k+2] != 'S' {
			return false
		}
	}
	return true
}

func runWorker() {
	sc := bufio.NewScanner(os.Stdin)
	sc.Buffer(make([]byte, 1<<20), 1<<26)
	w := bufio.NewWriter(os.Stdout)
	for sc.Scan() {
		c, err := h.ParseLabCase(sc.Bytes())
		if err != nil {
			fatal(err)
		}
		res := h.RunLab(c)
		l, err := h.LabLine(c, res)
		if err != nil {
			fatal(err)
		}
		w.Write(l)
		w.WriteByte('\n')
		w.Flush()
	}
}

type br struct {
	b []byte
	i int
}

func (r *br) Read(p []byte) (int, error) {
	if r.i >= len(r.b) {
		return 0, io.EOF
	}
	n := copy(p, r.b[r.i:])
	r.i += n
	return n, nil
}

func bytesReader(b []byte) io.Reader { return &br{b: b} }

func fatal(err error) {
	fmt.Fprintln(os.Stderr, "exprlab:", err)
	_ = json.Valid
	os.Exit(2)
}
