// Command conc records concurrent histories of one real client (SDK v1 or v2): G goroutines issue operations of a
// scenario at the same time; every call is logged with an invocation stamp taken before it starts and a return stamp
// taken after it returned (one global atomic counter), together with its normalised response.  TLC (TraceLin.tla)
// then searches for a sequential order, consistent with those stamps, in which every response is what MiniDyn.tla
// allows.  A Go fatal error (concurrent map writes ...) kills this process: the driver reports it as a crash.
package main

import (
	"context"
	"time"

	"bufio"
	"encoding/json"
	"flag"
	"fmt"
	mtypes "github.com/truora/minidyn/types"
	"math/rand"
	"os"
	"runtime"
	"sync"
	"sync/atomic"

	"verifharness/h"
)

type entry struct {
	ID  int             `json:"id"`
	G   int             `json:"g"`
	Inv int64           `json:"inv"`
	Ret int64           `json:"ret"`
	E   json.RawMessage `json:"e"`
	R   *h.Resp         `json:"r"`
}

var clock int64

var nocondG = map[string]interface{}{"some": false, "ast": map[string]interface{}{"k": "none"}}

func main() {
	sdk := flag.String("sdk", "v2", "v1 | v2")
	scenario := flag.String("scenario", "counter", "counter | putonce | mixed | lifecycle | createrace | indexreads | condupdate | batchrace | cancel")
	seed := flag.Int64("seed", 1, "seed")
	gor := flag.Int("g", 6, "goroutines")
	n := flag.Int("n", 8, "operations per goroutine")
	out := flag.String("out", "hist.ndjson", "output")
	flag.Parse()

	var p h.Prim
	if *sdk == "v1" {
		p = &h.V1{}
	} else {
		p = &h.V2{}
	}
	p.Reset()
	rnd := rand.New(rand.NewSource(*seed))
	var hist []entry
	var mu sync.Mutex
	do := func(g int, ev map[string]interface{}) {
		raw, _ := json.Marshal(ev)
		e, err := h.ParseEvent(raw)
		if err != nil {
			fmt.Fprintln(os.Stderr, "conc:", err)
			os.Exit(2)
		}
		inv := atomic.AddInt64(&clock, 1)
		r := h.Exec(p, e)
		ret := atomic.AddInt64(&clock, 1)
		mu.Lock()
		defer mu.Unlock()
		if e.Op == "BatchWrite" && r.Err == "none" && len(r.Unproc) == 0 {
			// BatchWriteItem is not atomic as a whole (neither is DynamoDB's): each of its requests is a write of its own that takes
			// effect somewhere between the call and its return, so the history gets one entry per request, all with the call's stamps
			for _, wr := range e.WReqs {
				var sub map[string]interface{}
				if wr.Put.Some {
					sub = map[string]interface{}{"op": "PutItem", "c": e.C, "t": wr.T, "item": wr.Put.I, "cond": nocondG, "names": map[string]interface{}{},
						"values": map[string]interface{}{}, "rvf": false}
				} else {
					sub = map[string]interface{}{"op": "DeleteItem", "c": e.C, "t": wr.T, "key": wr.Del.K, "cond": nocondG, "names": map[string]interface{}{},
						"values": map[string]interface{}{}, "retold": false, "rvf": false}
				}
				sraw, _ := json.Marshal(sub)
				hist = append(hist, entry{G: g, Inv: inv, Ret: ret, E: sraw, R: h.NewResp()})
			}
			return
		}
		hist = append(hist, entry{G: g, Inv: inv, Ret: ret, E: raw, R: r})
	}
	S := func(s string) map[string]interface{} { return map[string]interface{}{"t": "S", "s": toInts(s)} }
	N := func(i int) map[string]interface{} {
		ds := []int{}
		for _, c := range fmt.Sprint(i) {
			ds = append(ds, int(c-'0'))
		}
		return map[string]interface{}{"t": "N", "n": map[string]interface{}{"neg": false, "d": ds, "e": 0}}
	}
	nocond := map[string]interface{}{"some": false, "ast": map[string]interface{}{"k": "none"}}
	key := func(k string) map[string]interface{} { return map[string]interface{}{"h": S(k)} }
	path := func(n string) map[string]interface{} {
		return map[string]interface{}{"k": "path", "p": []interface{}{map[string]interface{}{"s": "n", "n": n, "i": 0}}}
	}
	pth := func(n string) []interface{} { return []interface{}{map[string]interface{}{"s": "n", "n": n, "i": 0}} }
	val := func(n string) map[string]interface{} { return map[string]interface{}{"k": "val", "n": n} }
	emptyUpd := func() map[string]interface{} {
		return map[string]interface{}{"set": []interface{}{}, "remove": []interface{}{}, "add": []interface{}{}, "del": []interface{}{}}
	}
	addOne := func(k string) map[string]interface{} {
		u := emptyUpd()
		u["add"] = []interface{}{map[string]interface{}{"p": pth("n"), "v": val(":one")}}
		return map[string]interface{}{"op": "UpdateItem", "c": "c1", "t": "tbl1", "key": key(k), "upd": u, "cond": nocond, "names": map[string]interface{}{},
			"values": map[string]interface{}{":one": N(1)}, "rvf": false}
	}
	put := func(k string, v int, cond interface{}) map[string]interface{} {
		c := nocond
		if cond != nil {
			c = map[string]interface{}{"some": true, "ast": cond}
		}
		return map[string]interface{}{"op": "PutItem", "c": "c1", "t": "tbl1", "item": map[string]interface{}{"h": S(k), "v": N(v)}, "cond": c,
			"names": map[string]interface{}{}, "values": map[string]interface{}{}, "rvf": false}
	}
	get := func(k string) map[string]interface{} {
		return map[string]interface{}{"op": "GetItem", "c": "c1", "t": "tbl1", "key": key(k)}
	}
	del := func(k string) map[string]interface{} {
		return map[string]interface{}{"op": "DeleteItem", "c": "c1", "t": "tbl1", "key": key(k), "cond": nocond, "names": map[string]interface{}{},
			"values": map[string]interface{}{}, "retold": true, "rvf": false}
	}
	setV := func(k string, v int) map[string]interface{} {
		u := emptyUpd()
		u["set"] = []interface{}{map[string]interface{}{"p": pth("v"), "v": val(":v")}}
		return map[string]interface{}{"op": "UpdateItem", "c": "c1", "t": "tbl1", "key": key(k), "upd": u, "cond": nocond, "names": map[string]interface{}{},
			"values": map[string]interface{}{":v": N(v)}, "rvf": false}
	}
	scan := func() map[string]interface{} {
		return map[string]interface{}{"op": "Scan", "c": "c1", "t": "tbl1", "kind": "scan", "index": map[string]interface{}{"some": false, "n": ""},
			"filter": nocond, "names": map[string]interface{}{}, "values": map[string]interface{}{}, "limit": map[string]interface{}{"some": false, "n": 0},
			"esk": map[string]interface{}{"some": false, "k": map[string]interface{}{}}}
	}
	table := func(op, t string) map[string]interface{} {
		if op == "AddTable" {
			return map[string]interface{}{"op": op, "c": "c1", "t": t, "hash": "h", "range": ""}
		}
		return map[string]interface{}{"op": op, "c": "c1", "t": t}
	}
	_ = path
	// full CreateTable with two global indexes and a local one (more work between "does it exist" and "register it")
	createFull := func(t string) map[string]interface{} {
		ad := func(n string) map[string]interface{} { return map[string]interface{}{"n": n, "ty": "S"} }
		rng := func(n string) map[string]interface{} { return map[string]interface{}{"some": n != "", "n": n} }
		ix := func(name, hk, rk string) map[string]interface{} {
			return map[string]interface{}{"name": name, "hash": hk, "range": rng(rk), "proj": "ALL", "thr": false}
		}
		return map[string]interface{}{"op": "CreateTable", "c": "c1", "t": t, "hash": map[string]interface{}{"n": "h", "ty": "S"},
			"range": map[string]interface{}{"some": true, "n": "r", "ty": "S"}, "billing": "PAY_PER_REQUEST", "thr": false,
			"attrs": []interface{}{ad("h"), ad("r"), ad("g"), ad("s"), ad("l")},
			"gsis":  []interface{}{ix("gix", "g", ""), ix("gsx", "g", "s")}, "lsis": []interface{}{ix("lix", "h", "l")}}
	}
	putG := func(t, k, r, g string, v int) map[string]interface{} {
		return map[string]interface{}{"op": "PutItem", "c": "c1", "t": t, "item": map[string]interface{}{"h": S(k), "r": S(r), "g": S(g), "s": S(r), "l": S(r), "v": N(v)},
			"cond": nocond, "names": map[string]interface{}{}, "values": map[string]interface{}{}, "rvf": false}
	}
	noLimit := map[string]interface{}{"some": false, "n": 0}
	noEsk := map[string]interface{}{"some": false, "k": map[string]interface{}{}}
	ixScan := func(t, index string) map[string]interface{} {
		return map[string]interface{}{"op": "Scan", "c": "c1", "t": t, "kind": "scan", "index": map[string]interface{}{"some": true, "n": index},
			"filter": nocond, "names": map[string]interface{}{}, "values": map[string]interface{}{}, "limit": noLimit, "esk": noEsk}
	}
	ixQuery := func(t, index, g string, fwd bool) map[string]interface{} {
		return map[string]interface{}{"op": "Query", "c": "c1", "t": t, "kind": "query", "index": map[string]interface{}{"some": true, "n": index},
			"kc": map[string]interface{}{"k": "cmp", "op": "=", "l": path("g"), "r": val(":g")}, "filter": nocond, "names": map[string]interface{}{},
			"values": map[string]interface{}{":g": S(g)}, "fwd": fwd, "limit": noLimit, "esk": noEsk}
	}
	var arrived, generation int64
	barrier := func() { // cyclic spin barrier of the *gor worker goroutines: all leave within the same few hundred nanoseconds
		gen := atomic.LoadInt64(&generation)
		if atomic.AddInt64(&arrived, 1) == int64(*gor) {
			atomic.StoreInt64(&arrived, 0)
			atomic.AddInt64(&generation, 1)
			return
		}
		for atomic.LoadInt64(&generation) == gen {
			runtime.Gosched()
		}
	}

	// sequential prefix
	do(0, table("AddTable", "tbl1"))
	var wg sync.WaitGroup
	start := make(chan struct{})
	run := func(g int, f func(i int)) {
		wg.Add(1)
		go func() {
			defer wg.Done()
			<-start
			for i := 0; i < *n; i++ {
				f(i)
				runtime.Gosched()
			}
		}()
	}
	seeds := make([]*rand.Rand, *gor+1)
	for g := range seeds {
		seeds[g] = rand.New(rand.NewSource(rnd.Int63()))
	}
	switch *scenario {
	case "counter": // N concurrent ADD 1 must yield N
		for g := 1; g <= *gor; g++ {
			g := g
			run(g, func(i int) { do(g, addOne("k")) })
		}
	case "putonce": // exactly one of the racing attribute_not_exists puts succeeds (per key)
		for g := 1; g <= *gor; g++ {
			g := g
			run(g, func(i int) {
				do(g, put(fmt.Sprintf("k%d", i), g, map[string]interface{}{"k": "fn", "f": "attribute_not_exists", "args": []interface{}{path("h")}}))
			})
		}
	case "mixed":
		for g := 1; g <= *gor; g++ {
			g := g
			run(g, func(i int) {
				r := seeds[g]
				k := []string{"a", "b"}[r.Intn(2)]
				switch r.Intn(10) {
				case 8, 9: // a batch of two writes: it goes through the same locks as the single-item calls, or should
					other := []string{"a", "b", "c"}[r.Intn(3)]
					req := func(kind, kk string) map[string]interface{} {
						none := map[string]interface{}{"some": false, "i": map[string]interface{}{}}
						noneK := map[string]interface{}{"some": false, "k": map[string]interface{}{}}
						if kind == "put" {
							return map[string]interface{}{"t": "tbl1", "put": map[string]interface{}{"some": true, "i": map[string]interface{}{"h": S(kk), "v": N(g*100 + i)}}, "del": noneK}
						}
						return map[string]interface{}{"t": "tbl1", "put": none, "del": map[string]interface{}{"some": true, "k": key(kk)}}
					}
					reqs := []interface{}{req("put", k)}
					if other != k {
						reqs = append(reqs, req([]string{"put", "del"}[r.Intn(2)], other))
					}
					do(g, map[string]interface{}{"op": "BatchWrite", "c": "c1", "reqs": reqs})
				case 0:
					do(g, put(k, g*100+i, nil))
				case 1:
					do(g, get(k))
				case 2:
					do(g, del(k))
				case 3:
					do(g, setV(k, g*100+i))
				case 4:
					do(g, addOne(k))
				case 5:
					do(g, scan())
				case 6:
					do(g, table("DescribeTable", "tbl1"))
				case 7:
					do(g, put(k, g*100+i, map[string]interface{}{"k": "fn", "f": "attribute_not_exists", "args": []interface{}{path("h")}}))
				}
			})
		}
	case "condupdate": // round i: every goroutine tries SET w = <its number> IF attribute_not_exists(w) on key k<i> at the same moment: one may win
		for g := 1; g <= *gor; g++ {
			g := g
			run(g, func(i int) {
				u := emptyUpd()
				u["set"] = []interface{}{map[string]interface{}{"p": pth("w"), "v": val(":me")}}
				ev := map[string]interface{}{"op": "UpdateItem", "c": "c1", "t": "tbl1", "key": key(fmt.Sprintf("k%d", i)), "upd": u,
					"cond":  map[string]interface{}{"some": true, "ast": map[string]interface{}{"k": "fn", "f": "attribute_not_exists", "args": []interface{}{path("w")}}},
					"names": map[string]interface{}{}, "values": map[string]interface{}{":me": N(g)}, "rvf": false}
				barrier()
				do(g, ev)
				barrier()
				if g == 1 {
					do(g, get(fmt.Sprintf("k%d", i)))
				}
			})
		}
	case "batchrace": // round i: every goroutine sends a batch of 12 puts (its own keys) and one shared key at the same moment; goroutine 1 scans
		for g := 1; g <= *gor; g++ {
			g := g
			run(g, func(i int) {
				noneK := map[string]interface{}{"some": false, "k": map[string]interface{}{}}
				reqs := []interface{}{}
				for j := 0; j < 12; j++ {
					reqs = append(reqs, map[string]interface{}{"t": "tbl1", "put": map[string]interface{}{"some": true,
						"i": map[string]interface{}{"h": S(fmt.Sprintf("g%dr%dj%d", g, i%2, j)), "v": N(g*1000 + i)}}, "del": noneK})
				}
				reqs = append(reqs, map[string]interface{}{"t": "tbl1", "put": map[string]interface{}{"some": true,
					"i": map[string]interface{}{"h": S("shared"), "v": N(g*1000 + i)}}, "del": noneK})
				barrier()
				do(g, map[string]interface{}{"op": "BatchWrite", "c": "c1", "reqs": reqs})
				if g == 1 {
					do(g, get("shared"))
				}
			})
		}
	case "cancel": // a write whose context is cancelled while the client is busy: if the call reports failure, it must not take effect later
		p.ActivateNative("c1")
		gate, entered := make(chan struct{}), make(chan struct{})
		var once sync.Once
		p.Native("c1").AddUpdater("tbl1", "SET v = :v", func(item, attrs map[string]*mtypes.Item) {
			once.Do(func() { close(entered); <-gate }) // the first update parks here, inside the client's critical section
			item["v"] = attrs[":v"]
		})
		wg.Add(2)
		go func() { // A: holds the client busy
			defer wg.Done()
			do(1, setV("a", 1))
		}()
		<-entered
		ctx, cancel := context.WithCancel(context.Background())
		h.SetContexts(ctx)
		go func() { // B: a put under a context that is cancelled while it waits for the client
			defer wg.Done()
			do(2, put("b", 2, nil))
		}()
		time.Sleep(100 * time.Millisecond)
		cancel()
		time.Sleep(100 * time.Millisecond)
		close(gate)
		wg.Wait()
		h.SetContexts(context.Background())
		do(0, get("b"))
		do(0, get("a"))
	case "createrace": // round i: every goroutine creates table r<i> at the same moment; exactly one may win, and its item must survive
		for g := 1; g <= *gor; g++ {
			g := g
			run(g, func(i int) {
				t := fmt.Sprintf("rt%d", i)
				barrier()
				ev := createFull(t)
				raw, _ := json.Marshal(ev)
				e, _ := h.ParseEvent(raw)
				inv := atomic.AddInt64(&clock, 1)
				r := h.Exec(p, e)
				ret := atomic.AddInt64(&clock, 1)
				mu.Lock()
				hist = append(hist, entry{G: g, Inv: inv, Ret: ret, E: raw, R: r})
				mu.Unlock()
				if r.Err == "none" {
					do(g, putG(t, "k", fmt.Sprint(g), "p", g))
				}
				barrier()
				if g == 1 {
					do(g, map[string]interface{}{"op": "Scan", "c": "c1", "t": t, "kind": "scan", "index": map[string]interface{}{"some": false, "n": ""},
						"filter": nocond, "names": map[string]interface{}{}, "values": map[string]interface{}{}, "limit": noLimit, "esk": noEsk})
				}
			})
		}
	case "indexreads": // reads through secondary indexes at the same time (and one writer): reads must not disturb one another
		do(0, createFull("tix"))
		for i := 0; i < 12; i++ {
			do(0, putG("tix", fmt.Sprintf("k%d", i%4), fmt.Sprintf("r%02d", i), []string{"p", "q"}[i%2], i))
		}
		for g := 1; g <= *gor; g++ {
			g := g
			run(g, func(i int) {
				r := seeds[g]
				if g == 1 {
					if r.Intn(2) == 0 {
						do(g, putG("tix", "k9", fmt.Sprintf("w%02d", i), "p", 1000+i))
					} else {
						do(g, map[string]interface{}{"op": "GetItem", "c": "c1", "t": "tix", "key": map[string]interface{}{"h": S("k0"), "r": S("r00")}})
					}
					return
				}
				switch r.Intn(4) {
				case 0:
					do(g, ixScan("tix", "gix"))
				case 1:
					do(g, ixQuery("tix", "gix", []string{"p", "q"}[r.Intn(2)], r.Intn(2) == 0))
				case 2:
					do(g, ixQuery("tix", "gsx", []string{"p", "q"}[r.Intn(2)], r.Intn(2) == 0))
				case 3:
					do(g, ixScan("tix", "lix"))
				}
			})
		}
	case "lifecycle": // data operations race with table management, clearing and failure toggles
		for g := 1; g <= *gor; g++ {
			g := g
			run(g, func(i int) {
				r := seeds[g]
				k := []string{"a", "b"}[r.Intn(2)]
				switch r.Intn(10) {
				case 0:
					do(g, put(k, g*100+i, nil))
				case 1:
					do(g, get(k))
				case 2:
					do(g, table("AddTable", "tbl2"))
				case 3:
					do(g, table("DeleteTable", "tbl2"))
				case 4:
					do(g, table("DescribeTable", "tbl2"))
				case 5:
					do(g, table("ClearTable", []string{"tbl1", "tbl2"}[r.Intn(2)]))
				case 6:
					do(g, map[string]interface{}{"op": "Fail", "c": "c1", "mode": []string{"none", "internal"}[r.Intn(2)]})
				case 7:
					do(g, scan())
				case 8:
					do(g, table("DescribeTable", "tbl1"))
				case 9:
					do(g, addOne(k))
				}
			})
		}
	}
	close(start)
	wg.Wait()
	// sequential suffix: what the database finally shows
	do(0, map[string]interface{}{"op": "Fail", "c": "c1", "mode": "none"})
	do(0, scan())
	fo, _ := os.Create(*out)
	w := bufio.NewWriter(fo)
	for i := range hist {
		hist[i].ID = i + 1
		j, _ := json.Marshal(hist[i])
		w.Write(j)
		w.WriteByte('\n')
	}
	w.Flush()
	fo.Close()
}

func toInts(s string) []int {
	out := make([]int, len(s))
	for i := range s {
		out[i] = int(s[i])
	}
	return out
}
