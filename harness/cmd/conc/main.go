// Command conc records concurrent histories of one real client (SDK v1 or v2): G goroutines issue operations of a
// scenario at the same time; every call is logged with an invocation stamp taken before it starts and a return stamp
// taken after it returned (one global atomic counter), together with its normalised response.  TLC (TraceLin.tla)
// then searches for a sequential order, consistent with those stamps, in which every response is what MiniDyn.tla
// allows.  A Go fatal error (concurrent map writes ...) kills this process: the driver reports it as a crash.
package main

import (
	"runtime"
	"bufio"
	"encoding/json"
	"flag"
	"fmt"
	"math/rand"
	"os"
	"sync"
	"sync/atomic"

	"verifharness/h"
)

type entry struct {
	ID  int             `json:"id"`
	G   int             `json:"g"`
	Inv int64           `json:"inv"`
	Ret int64           `json:"ret"`
	E   json.RawMessage `json:"e"`
	R   *h.Resp         `json:"r"`
}

var clock int64

func main() {
	sdk := flag.String("sdk", "v2", "v1 | v2")
	scenario := flag.String("scenario", "counter", "counter | putonce | mixed | lifecycle")
	seed := flag.Int64("seed", 1, "seed")
	gor := flag.Int("g", 6, "goroutines")
	n := flag.Int("n", 8, "operations per goroutine")
	out := flag.String("out", "hist.ndjson", "output")
	flag.Parse()

	var p h.Prim
	if *sdk == "v1" {
		p = &h.V1{}
	} else {
		p = &h.V2{}
	}
	p.Reset()
	rnd := rand.New(rand.NewSource(*seed))
	var hist []entry
	var mu sync.Mutex
	do := func(g int, ev map[string]interface{}) {
		raw, _ := json.Marshal(ev)
		e, err := h.ParseEvent(raw)
		if err != nil {
			fmt.Fprintln(os.Stderr, "conc:", err)
			os.Exit(2)
		}
		inv := atomic.AddInt64(&clock, 1)
		r := h.Exec(p, e)
		ret := atomic.AddInt64(&clock, 1)
		mu.Lock()
		hist = append(hist, entry{G: g, Inv: inv, Ret: ret, E: raw, R: r})
		mu.Unlock()
	}
	S := func(s string) map[string]interface{} { return map[string]interface{}{"t": "S", "s": toInts(s)} }
	N := func(i int) map[string]interface{} {
		ds := []int{}
		for _, c := range fmt.Sprint(i) {
			ds = append(ds, int(c-'0'))
		}
		return map[string]interface{}{"t": "N", "n": map[string]interface{}{"neg": false, "d": ds, "e": 0}}
	}
	nocond := map[string]interface{}{"some": false, "ast": map[string]interface{}{"k": "none"}}
	key := func(k string) map[string]interface{} { return map[string]interface{}{"h": S(k)} }
	path := func(n string) map[string]interface{} {
		return map[string]interface{}{"k": "path", "p": []interface{}{map[string]interface{}{"s": "n", "n": n, "i": 0}}}
	}
	pth := func(n string) []interface{} { return []interface{}{map[string]interface{}{"s": "n", "n": n, "i": 0}} }
	val := func(n string) map[string]interface{} { return map[string]interface{}{"k": "val", "n": n} }
	emptyUpd := func() map[string]interface{} {
		return map[string]interface{}{"set": []interface{}{}, "remove": []interface{}{}, "add": []interface{}{}, "del": []interface{}{}}
	}
	addOne := func(k string) map[string]interface{} {
		u := emptyUpd()
		u["add"] = []interface{}{map[string]interface{}{"p": pth("n"), "v": val(":one")}}
		return map[string]interface{}{"op": "UpdateItem", "c": "c1", "t": "tbl1", "key": key(k), "upd": u, "cond": nocond, "names": map[string]interface{}{},
			"values": map[string]interface{}{":one": N(1)}, "rvf": false}
	}
	put := func(k string, v int, cond interface{}) map[string]interface{} {
		c := nocond
		if cond != nil {
			c = map[string]interface{}{"some": true, "ast": cond}
		}
		return map[string]interface{}{"op": "PutItem", "c": "c1", "t": "tbl1", "item": map[string]interface{}{"h": S(k), "v": N(v)}, "cond": c,
			"names": map[string]interface{}{}, "values": map[string]interface{}{}, "rvf": false}
	}
	get := func(k string) map[string]interface{} {
		return map[string]interface{}{"op": "GetItem", "c": "c1", "t": "tbl1", "key": key(k)}
	}
	del := func(k string) map[string]interface{} {
		return map[string]interface{}{"op": "DeleteItem", "c": "c1", "t": "tbl1", "key": key(k), "cond": nocond, "names": map[string]interface{}{},
			"values": map[string]interface{}{}, "retold": true, "rvf": false}
	}
	setV := func(k string, v int) map[string]interface{} {
		u := emptyUpd()
		u["set"] = []interface{}{map[string]interface{}{"p": pth("v"), "v": val(":v")}}
		return map[string]interface{}{"op": "UpdateItem", "c": "c1", "t": "tbl1", "key": key(k), "upd": u, "cond": nocond, "names": map[string]interface{}{},
			"values": map[string]interface{}{":v": N(v)}, "rvf": false}
	}
	scan := func() map[string]interface{} {
		return map[string]interface{}{"op": "Scan", "c": "c1", "t": "tbl1", "kind": "scan", "index": map[string]interface{}{"some": false, "n": ""},
			"filter": nocond, "names": map[string]interface{}{}, "values": map[string]interface{}{}, "limit": map[string]interface{}{"some": false, "n": 0},
			"esk": map[string]interface{}{"some": false, "k": map[string]interface{}{}}}
	}
	table := func(op, t string) map[string]interface{} {
		if op == "AddTable" {
			return map[string]interface{}{"op": op, "c": "c1", "t": t, "hash": "h", "range": ""}
		}
		return map[string]interface{}{"op": op, "c": "c1", "t": t}
	}
	_ = path

	// sequential prefix
	do(0, table("AddTable", "tbl1"))
	var wg sync.WaitGroup
	start := make(chan struct{})
	run := func(g int, f func(i int)) {
		wg.Add(1)
		go func() {
			defer wg.Done()
			<-start
			for i := 0; i < *n; i++ {
				f(i)
				runtime.Gosched()
			}
		}()
	}
	seeds := make([]*rand.Rand, *gor+1)
	for g := range seeds {
		seeds[g] = rand.New(rand.NewSource(rnd.Int63()))
	}
	switch *scenario {
	case "counter": // N concurrent ADD 1 must yield N
		for g := 1; g <= *gor; g++ {
			g := g
			run(g, func(i int) { do(g, addOne("k")) })
		}
	case "putonce": // exactly one of the racing attribute_not_exists puts succeeds (per key)
		for g := 1; g <= *gor; g++ {
			g := g
			run(g, func(i int) {
				do(g, put(fmt.Sprintf("k%d", i), g, map[string]interface{}{"k": "fn", "f": "attribute_not_exists", "args": []interface{}{path("h")}}))
			})
		}
	case "mixed":
		for g := 1; g <= *gor; g++ {
			g := g
			run(g, func(i int) {
				r := seeds[g]
				k := []string{"a", "b"}[r.Intn(2)]
				switch r.Intn(8) {
				case 0:
					do(g, put(k, g*100+i, nil))
				case 1:
					do(g, get(k))
				case 2:
					do(g, del(k))
				case 3:
					do(g, setV(k, g*100+i))
				case 4:
					do(g, addOne(k))
				case 5:
					do(g, scan())
				case 6:
					do(g, table("DescribeTable", "tbl1"))
				case 7:
					do(g, put(k, g*100+i, map[string]interface{}{"k": "fn", "f": "attribute_not_exists", "args": []interface{}{path("h")}}))
				}
			})
		}
	case "lifecycle": // data operations race with table management, clearing and failure toggles
		for g := 1; g <= *gor; g++ {
			g := g
			run(g, func(i int) {
				r := seeds[g]
				k := []string{"a", "b"}[r.Intn(2)]
				switch r.Intn(10) {
				case 0:
					do(g, put(k, g*100+i, nil))
				case 1:
					do(g, get(k))
				case 2:
					do(g, table("AddTable", "tbl2"))
				case 3:
					do(g, table("DeleteTable", "tbl2"))
				case 4:
					do(g, table("DescribeTable", "tbl2"))
				case 5:
					do(g, table("ClearTable", "tbl1"))
				case 6:
					do(g, map[string]interface{}{"op": "Fail", "c": "c1", "mode": []string{"none", "internal"}[r.Intn(2)]})
				case 7:
					do(g, scan())
				case 8:
					do(g, table("DescribeTable", "tbl1"))
				case 9:
					do(g, addOne(k))
				}
			})
		}
	}
	close(start)
	wg.Wait()
	// sequential suffix: what the database finally shows
	do(0, map[string]interface{}{"op": "Fail", "c": "c1", "mode": "none"})
	do(0, scan())
	fo, _ := os.Create(*out)
	w := bufio.NewWriter(fo)
	for i := range hist {
		hist[i].ID = i + 1
		j, _ := json.Marshal(hist[i])
		w.Write(j)
		w.WriteByte('\n')
	}
	w.Flush()
	fo.Close()
}

func toInts(s string) []int {
	out := make([]int, len(s))
	for i := range s {
		out[i] = int(s[i])
	}
	return out
}
