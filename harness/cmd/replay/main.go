// Command replay is channel G's middle step: it reads the edges TLC enumerated for a bounded model
// (header with setup and operation menu, then one line per transition: shortest path, operation, whether
// the specification state changes), replays them into fresh SDK v1 and SDK v2 clients built from /repo,
// and writes the recorded traces (one judged-trace chunk per output file) for Trace.tla.
package main

import (
	"bufio"
	"encoding/json"
	"flag"
	"fmt"
	"os"
	"sort"
	"strconv"
	"strings"

	"verifharness/h"
)

type header struct {
	Setup []json.RawMessage `json:"setup"`
	Menu  []json.RawMessage `json:"menu"`
}

type edge struct {
	Path []int `json:"path"`
	Op   int   `json:"op"`
	Ro   bool  `json:"ro"`
}

var pureReads = map[string]bool{"GetItem": true, "Query": true, "Scan": true, "DescribeTable": true, "BatchGet": true}

func main() {
	edgesPath := flag.String("edges", "", "edges file (header line + edge lines)")
	outPrefix := flag.String("out", "trace", "output prefix; chunk i is written to <out>.<i>.ndjson")
	chunks := flag.Int("chunks", 1, "number of chunk files")
	stats := flag.String("stats", "", "write replay statistics (JSON) here")
	opsPath := flag.String("ops", "", "instead of edges: a plain list of operations (one trace; {\"op\":\"Reset\"} lines start new traces)")
	preObserve := flag.Bool("preobserve", false, "with -edges: also observe the state BEFORE the operation of each trace (reads, then the write, then reads again)")
	observe := flag.String("observe", "all", "with -ops: observe after \"all\" events or only the \"last\" of each trace")
	flag.Parse()

	if *opsPath != "" {
		replayOps(*opsPath, *outPrefix, *observe)
		return
	}

	f, err := os.Open(*edgesPath)
	if err != nil {
		fatal(err)
	}
	defer f.Close()
	sc := bufio.NewScanner(f)
	sc.Buffer(make([]byte, 1<<20), 1<<28)
	if !sc.Scan() {
		fatal(fmt.Errorf("empty edges file"))
	}
	var hd header
	if err := json.Unmarshal(sc.Bytes(), &hd); err != nil {
		fatal(fmt.Errorf("header: %w", err))
	}
	parse := func(raws []json.RawMessage) []*h.Event {
		out := make([]*h.Event, len(raws))
		for i, r := range raws {
			ev, err := h.ParseEvent(r)
			if err != nil {
				fatal(fmt.Errorf("operation %d: %w", i, err))
			}
			out[i] = ev
		}
		return out
	}
	setup := parse(hd.Setup)
	menu := parse(hd.Menu)

	type group struct {
		path []int
		ro   []int
		mut  []int
	}
	groups := map[string]*group{}
	order := []string{}
	nEdges := 0
	for sc.Scan() {
		line := sc.Bytes()
		if len(strings.TrimSpace(string(line))) == 0 {
			continue
		}
		var e edge
		if err := json.Unmarshal(line, &e); err != nil {
			fatal(fmt.Errorf("edge line: %w", err))
		}
		nEdges++
		var kb strings.Builder
		for _, p := range e.Path {
			kb.WriteString(strconv.Itoa(p))
			kb.WriteByte(',')
		}
		k := kb.String()
		g := groups[k]
		if g == nil {
			g = &group{path: e.Path}
			groups[k] = g
			order = append(order, k)
		}
		if e.Ro {
			g.ro = append(g.ro, e.Op)
		} else {
			g.mut = append(g.mut, e.Op)
		}
	}
	if err := sc.Err(); err != nil {
		fatal(err)
	}

	outs := make([]*bufio.Writer, *chunks)
	files := make([]*os.File, *chunks)
	for i := range outs {
		fo, err := os.Create(fmt.Sprintf("%s.%d.ndjson", *outPrefix, i))
		if err != nil {
			fatal(err)
		}
		files[i] = fo
		outs[i] = bufio.NewWriterSize(fo, 1<<20)
	}
	run := h.NewRunner()
	traces := 0
	next := 0
	var w *bufio.Writer
	emit := func(ev *h.Event, observe bool) {
		line, err := run.Step(ev, observe)
		if err != nil {
			fatal(err)
		}
		w.Write(line)
		w.WriteByte('\n')
	}
	begin := func(path []int) {
		w = outs[next%*chunks]
		next++
		traces++
		run.Reset()
		w.WriteString("{\"op\":\"Reset\"}\n")
		for _, ev := range setup {
			emit(ev, false)
		}
		for n, i := range path {
			emit(menu[i-1], *preObserve && n == len(path)-1)
		}
	}
	for _, k := range order {
		g := groups[k]
		sort.Ints(g.ro)
		sort.Ints(g.mut)
		begin(g.path)
		var pure, other []int
		for _, i := range g.ro {
			if pureReads[menu[i-1].Op] || (menu[i-1].Op == "Walk" && !menu[i-1].Del) {
				pure = append(pure, i)
			} else {
				other = append(other, i)
			}
		}
		// reads share one trace (one observation at the end); every other operation - state-changing or
		// refused - gets a trace of its own so that one rejected event never hides the next
		for n, i := range pure {
			emit(menu[i-1], n == len(pure)-1)
		}
		first := len(pure) == 0
		for _, i := range append(append([]int{}, other...), g.mut...) {
			if !first {
				begin(g.path)
			}
			first = false
			emit(menu[i-1], true)
		}
	}
	for i := range outs {
		outs[i].Flush()
		files[i].Close()
	}
	if *stats != "" {
		j, _ := json.Marshal(map[string]int{"edges": nEdges, "states": len(groups), "traces": traces, "events": run.Events})
		os.WriteFile(*stats, j, 0o644)
	}
}

// replayOps replays witness / replay files: operations only, recorded with observations.
func replayOps(path, out, observe string) {
	data, err := os.ReadFile(path)
	if err != nil {
		fatal(err)
	}
	var evs []*h.Event
	var labLines [][]byte
	for _, line := range strings.Split(string(data), "\n") {
		if strings.TrimSpace(line) == "" {
			continue
		}
		ev, err := h.ParseEvent([]byte(line))
		if err != nil {
			fatal(err)
		}
		if ev.Op == "Match" || ev.Op == "Apply" || ev.Op == "MatchText" || ev.Op == "ApplyText" {
			labLines = append(labLines, []byte(line))
			continue
		}
		evs = append(evs, ev)
	}
	if len(labLines) > 0 {
		fo, err := os.Create(out)
		if err != nil {
			fatal(err)
		}
		for _, l := range labLines {
			c, err := h.ParseLabCase(l)
			if err != nil {
				fatal(err)
			}
			j, err := h.LabLine(c, h.RunLab(c))
			if err != nil {
				fatal(err)
			}
			fo.Write(j)
			fo.Write([]byte("\n"))
		}
		fo.Close()
		return
	}
	fo, err := os.Create(out)
	if err != nil {
		fatal(err)
	}
	w := bufio.NewWriter(fo)
	run := h.NewRunner()
	w.WriteString("{\"op\":\"Reset\"}\n")
	for i, ev := range evs {
		if ev.Op == "Reset" {
			if i > 0 {
				run.Reset()
				w.WriteString("{\"op\":\"Reset\"}\n")
			}
			continue
		}
		last := i == len(evs)-1 || evs[i+1].Op == "Reset"
		line, err := run.Step(ev, observe == "all" || last)
		if err != nil {
			fatal(err)
		}
		w.Write(line)
		w.WriteByte('\n')
	}
	w.Flush()
	fo.Close()
}

func fatal(err error) {
	fmt.Fprintln(os.Stderr, "replay:", err)
	os.Exit(2)
}
