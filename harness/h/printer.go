package h

import (
	"fmt"
	"strings"
)

// The printer turns the abstract syntax trees of Expr.tla into expression text.  It is mechanical;
// the grammar check (Grammar.tla) re-parses printed text and compares the tree, so a printer mistake
// is detected rather than trusted.

func astStr(a Ast, k string) string {
	s, _ := a[k].(string)
	return s
}

func astAst(a Ast, k string) Ast {
	switch m := a[k].(type) {
	case map[string]interface{}:
		return Ast(m)
	case Ast:
		return m
	}
	return Ast{}
}

func astList(a Ast, k string) []Ast {
	l, _ := a[k].([]interface{})
	out := make([]Ast, 0, len(l))
	for _, x := range l {
		if m, ok := x.(map[string]interface{}); ok {
			out = append(out, Ast(m))
		}
	}
	return out
}

func astInt(a Ast, k string) int {
	f, _ := a[k].(float64)
	return int(f)
}

// PrintPath prints a document path.
func PrintPath(steps []Ast) string {
	var b strings.Builder
	for i, st := range steps {
		switch astStr(st, "s") {
		case "n", "a":
			if i > 0 {
				b.WriteByte('.')
			}
			b.WriteString(astStr(st, "n"))
		case "i":
			fmt.Fprintf(&b, "[%d]", astInt(st, "i"))
		}
	}
	return b.String()
}

// PrintOperand prints a condition operand or a SET right-hand side.
func PrintOperand(o Ast) string {
	switch astStr(o, "k") {
	case "path":
		return PrintPath(astList(o, "p"))
	case "val":
		return astStr(o, "n")
	case "size":
		return "size(" + PrintPath(astList(o, "p")) + ")"
	case "plus":
		return PrintOperand(astAst(o, "l")) + " + " + PrintOperand(astAst(o, "r"))
	case "minus":
		return PrintOperand(astAst(o, "l")) + " - " + PrintOperand(astAst(o, "r"))
	case "ine":
		return "if_not_exists(" + PrintPath(astList(o, "p")) + ", " + PrintOperand(astAst(o, "v")) + ")"
	case "lapp":
		return "list_append(" + PrintOperand(astAst(o, "l")) + ", " + PrintOperand(astAst(o, "r")) + ")"
	}
	return "?"
}

func prec(c Ast) int {
	switch astStr(c, "k") {
	case "or":
		return 1
	case "and":
		return 2
	case "not":
		return 3
	}
	return 4
}

func wrap(c Ast, min int) string {
	s := PrintCond(c)
	if prec(c) < min {
		return "(" + s + ")"
	}
	return s
}

// PrintCond prints a condition with the parentheses its shape needs.
func PrintCond(c Ast) string {
	switch astStr(c, "k") {
	case "cmp":
		return PrintOperand(astAst(c, "l")) + " " + astStr(c, "op") + " " + PrintOperand(astAst(c, "r"))
	case "between":
		return PrintOperand(astAst(c, "x")) + " BETWEEN " + PrintOperand(astAst(c, "lo")) + " AND " + PrintOperand(astAst(c, "hi"))
	case "in":
		xs := astList(c, "xs")
		parts := make([]string, len(xs))
		for i, x := range xs {
			parts[i] = PrintOperand(x)
		}
		return PrintOperand(astAst(c, "x")) + " IN (" + strings.Join(parts, ", ") + ")"
	case "and":
		return wrap(astAst(c, "l"), 2) + " AND " + wrap(astAst(c, "r"), 3)
	case "or":
		return wrap(astAst(c, "l"), 1) + " OR " + wrap(astAst(c, "r"), 2)
	case "not":
		return "NOT " + wrap(astAst(c, "x"), 3)
	case "fn":
		args := astList(c, "args")
		parts := make([]string, len(args))
		for i, x := range args {
			parts[i] = PrintOperand(x)
		}
		return astStr(c, "f") + "(" + strings.Join(parts, ", ") + ")"
	}
	return "?"
}

// PrintUpdate prints an update expression.
func PrintUpdate(u Ast) string {
	var clauses []string
	if set := astList(u, "set"); len(set) > 0 {
		parts := make([]string, len(set))
		for i, a := range set {
			parts[i] = PrintPath(astList(a, "p")) + " = " + PrintOperand(astAst(a, "v"))
		}
		clauses = append(clauses, "SET "+strings.Join(parts, ", "))
	}
	if rem := u["remove"]; rem != nil {
		l, _ := rem.([]interface{})
		if len(l) > 0 {
			parts := make([]string, len(l))
			for i, p := range l {
				steps, _ := p.([]interface{})
				ss := make([]Ast, 0, len(steps))
				for _, s := range steps {
					if m, ok := s.(map[string]interface{}); ok {
						ss = append(ss, Ast(m))
					}
				}
				parts[i] = PrintPath(ss)
			}
			clauses = append(clauses, "REMOVE "+strings.Join(parts, ", "))
		}
	}
	if add := astList(u, "add"); len(add) > 0 {
		parts := make([]string, len(add))
		for i, a := range add {
			parts[i] = PrintPath(astList(a, "p")) + " " + PrintOperand(astAst(a, "v"))
		}
		clauses = append(clauses, "ADD "+strings.Join(parts, ", "))
	}
	if del := astList(u, "del"); len(del) > 0 {
		parts := make([]string, len(del))
		for i, a := range del {
			parts[i] = PrintPath(astList(a, "p")) + " " + PrintOperand(astAst(a, "v"))
		}
		clauses = append(clauses, "DELETE "+strings.Join(parts, ", "))
	}
	return strings.Join(clauses, " ")
}
