package h

import (
	mtypes "github.com/truora/minidyn/types"
)

// ToCore builds the interpreter-level representation (types.Item) of an abstract value.
func ToCore(v Value) *mtypes.Item {
	switch v.T {
	case "S":
		return &mtypes.Item{S: strp(string(v.Str))}
	case "B":
		return &mtypes.Item{B: cloneBytes(v.Str)}
	case "N":
		return &mtypes.Item{N: strp(v.Num)}
	case "BOOL":
		return &mtypes.Item{BOOL: boolp(v.Bool)}
	case "NULL":
		return &mtypes.Item{NULL: boolp(true)}
	case "L":
		l := make([]*mtypes.Item, len(v.L))
		for i, x := range v.L {
			l[i] = ToCore(x)
		}
		return &mtypes.Item{L: l}
	case "M":
		m := make(map[string]*mtypes.Item, len(v.M))
		for k, x := range v.M {
			m[k] = ToCore(x)
		}
		return &mtypes.Item{M: m}
	case "SS":
		ss := make([]*string, len(v.SS))
		for i, x := range v.SS {
			ss[i] = strp(string(x))
		}
		return &mtypes.Item{SS: ss}
	case "BS":
		bs := make([][]byte, len(v.SS))
		for i, x := range v.SS {
			bs[i] = cloneBytes(x)
		}
		return &mtypes.Item{BS: bs}
	case "NS":
		ns := make([]*string, len(v.NS))
		for i, x := range v.NS {
			ns[i] = strp(x)
		}
		return &mtypes.Item{NS: ns}
	}
	return &mtypes.Item{}
}

// ItemToCore converts an item.
func ItemToCore(it Item) map[string]*mtypes.Item {
	out := make(map[string]*mtypes.Item, len(it))
	for k, v := range it {
		out[k] = ToCore(v)
	}
	return out
}

// ItemFromCore reads an interpreter-level item.
func ItemFromCore(m map[string]*mtypes.Item) Item { return itemFromCore(m) }
