package h

import (
	"encoding/json"
	"errors"
	"fmt"

	"github.com/truora/minidyn/interpreter"
)

// LabCase is one expression-lab case: a condition ("Match") or an update ("Apply") with its bindings.
type LabCase struct {
	Op     string `json:"op"`
	Ast    Ast    `json:"ast"`
	Text   *[]int `json:"text,omitempty"`
	Item   Item   `json:"item"`
	Names  StrMap `json:"names"`
	Values Item   `json:"values"`
	raw    map[string]json.RawMessage
}

// LabOut is what one channel answered: o in T, F (conditions), ok (updates), E (any error), panic_syntax, crash.
type LabOut struct {
	O     string  `json:"o"`
	After OptItem `json:"after"`
	Msg   string  `json:"-"`
}

// ParseLabCase decodes a case keeping the raw fields.
func ParseLabCase(line []byte) (*LabCase, error) {
	c := &LabCase{}
	if err := json.Unmarshal(line, c); err != nil {
		return nil, err
	}
	if err := json.Unmarshal(line, &c.raw); err != nil {
		return nil, err
	}
	return c, nil
}

// ExprText is the expression text of the case (explicit bytes, or the printed tree).
func (c *LabCase) ExprText() string {
	if c.Text != nil {
		return string(intsToBytes(*c.Text))
	}
	if c.Op == "Apply" || c.Op == "ApplyText" {
		return PrintUpdate(c.Ast)
	}
	return PrintCond(c.Ast)
}

func labGuard(f func() LabOut) (out LabOut) {
	defer func() {
		if p := recover(); p != nil {
			out = LabOut{O: "crash", After: OptItem{I: Item{}}, Msg: fmt.Sprint(p)}
			if e, ok := p.(error); ok && (errors.Is(e, interpreter.ErrSyntaxError) || errors.Is(e, interpreter.ErrUnsupportedFeature)) {
				out.O = "panic_syntax"
			}
		}
	}()
	return f()
}

const labPK = "pk"

// RunLab executes one case through the interpreter directly and through both client APIs.
func RunLab(c *LabCase) map[string]LabOut {
	text := c.ExprText()
	res := map[string]LabOut{}
	lang := &interpreter.Language{}
	withPK := Item{}
	for k, v := range c.Item {
		withPK[k] = v
	}
	withPK[labPK] = SVal("k")
	key := Item{labPK: SVal("k")}

	if c.Op == "MatchText" {
		c.Op = "Match"
		defer func() { c.Op = "MatchText" }()
	}
	if c.Op == "ApplyText" {
		c.Op = "Apply"
		defer func() { c.Op = "ApplyText" }()
	}
	if c.Op == "Match" {
		res["lang"] = labGuard(func() LabOut {
			item := ItemToCore(c.Item)
			ok, err := lang.Match(interpreter.MatchInput{TableName: "t", Expression: text, ExpressionType: interpreter.ExpressionTypeConditional,
				Item: item, Attributes: ItemToCore(c.Values), Aliases: c.Names})
			out := LabOut{After: optOfAlways(ItemFromCore(item))}
			switch {
			case err != nil:
				out.O, out.Msg = "E", err.Error()
			case ok:
				out.O = "T"
			default:
				out.O = "F"
			}
			return out
		})
		api := func(p Prim) LabOut {
			p.Reset()
			p.AddTable("c1", "tbl1", labPK, "")
			if r := p.Put("c1", "tbl1", withPK, WriteArgs{}); r.Err != "none" {
				return LabOut{O: "setup:" + r.Err, After: OptItem{I: Item{}}}
			}
			r := p.Put("c1", "tbl1", withPK, WriteArgs{Cond: &text, Names: c.Names, Values: c.Values})
			out := LabOut{Msg: r.Msg}
			switch r.Err {
			case "none":
				out.O = "T"
			case "ccf":
				out.O = "F"
			case "crash", "panic_syntax":
				out.O = r.Err
			default:
				out.O = "E"
			}
			g := p.Get("c1", "tbl1", key)
			out.After = stripPK(g.Item)
			return out
		}
		res["v1"] = api(&V1{})
		res["v2"] = api(&V2{})
		res["scan"] = func() LabOut {
			p := &V2{}
			p.Reset()
			p.AddTable("c1", "tbl1", labPK, "")
			if r := p.Put("c1", "tbl1", withPK, WriteArgs{}); r.Err != "none" {
				return LabOut{O: "setup:" + r.Err, After: OptItem{I: Item{}}}
			}
			r := p.Read("c1", &ReadArgs{T: "tbl1", Kind: "scan", Filter: &text, Names: c.Names, Values: c.Values})
			out := LabOut{Msg: r.Msg}
			switch r.Err {
			case "none":
				if len(r.Items) == 1 {
					out.O = "T"
				} else if len(r.Items) == 0 {
					out.O = "F"
				} else {
					out.O = "many"
				}
			case "crash", "panic_syntax":
				out.O = r.Err
			default:
				out.O = "E"
			}
			g := p.Get("c1", "tbl1", key)
			out.After = stripPK(g.Item)
			return out
		}()
		return res
	}

	// Apply
	res["lang"] = labGuard(func() LabOut {
		item := ItemToCore(c.Item)
		err := lang.Update(interpreter.UpdateInput{TableName: "t", Expression: text, Item: item, Attributes: ItemToCore(c.Values), Aliases: c.Names})
		out := LabOut{After: optOfAlways(ItemFromCore(item)), O: "ok"}
		if err != nil {
			out.O, out.Msg = "E", err.Error()
		}
		return out
	})
	api := func(p Prim) LabOut {
		p.Reset()
		p.AddTable("c1", "tbl1", labPK, "")
		if r := p.Put("c1", "tbl1", withPK, WriteArgs{}); r.Err != "none" {
			return LabOut{O: "setup:" + r.Err, After: OptItem{I: Item{}}}
		}
		r := p.Update("c1", "tbl1", key, text, WriteArgs{Names: c.Names, Values: c.Values})
		out := LabOut{Msg: r.Msg}
		switch r.Err {
		case "none":
			out.O = "ok"
		case "crash", "panic_syntax":
			out.O = r.Err
		default:
			out.O = "E"
		}
		g := p.Get("c1", "tbl1", key)
		out.After = stripPK(g.Item)
		return out
	}
	res["v1"] = api(&V1{})
	res["v2"] = api(&V2{})
	return res
}

func optOfAlways(it Item) OptItem { return OptItem{Some: true, I: it} }

func stripPK(o OptItem) OptItem {
	if !o.Some {
		return OptItem{I: Item{}}
	}
	out := Item{}
	for k, v := range o.I {
		if k != labPK {
			out[k] = v
		}
	}
	return OptItem{Some: true, I: out}
}

// LabLine renders the judged-trace line of a case.
func LabLine(c *LabCase, res map[string]LabOut) ([]byte, error) {
	line := map[string]json.RawMessage{}
	for k, v := range c.raw {
		line[k] = v
	}
	j, err := json.Marshal(res)
	if err != nil {
		return nil, err
	}
	line["r"] = j
	if _, ok := line["text"]; !ok {
		t, _ := json.Marshal(bytesToInts([]byte(c.ExprText())))
		line["text"] = t
	}
	return json.Marshal(line)
}
