package h

import (
	"context"
	"errors"
	"github.com/truora/minidyn/interpreter"
	"sort"
	"strings"

	"github.com/aws/aws-sdk-go/aws"
	"github.com/aws/aws-sdk-go/aws/awserr"
	"github.com/aws/aws-sdk-go/service/dynamodb"
	v1c "github.com/truora/minidyn/aws-v1/client"
	mtypes "github.com/truora/minidyn/types"
)

// bgv1 is the context handed to the WithContext variants of the SDK v1 client: the harness calls those (they wrap the plain
// methods), the caller-memory probes of alias.go call the plain ones, so both entry points are exercised.
var bgv1 = context.Background()

// V1 drives aws-v1/client.
type V1 struct {
	hangState
	cs map[string]*v1c.Client
}

// Name of the back end.
func (b *V1) Name() string { return "v1" }

// Reset creates fresh clients.
func (b *V1) Reset() {
	b.resetHang()
	b.cs = map[string]*v1c.Client{}
	for _, id := range ClientIDs {
		b.cs[id] = v1c.NewClient()
	}
}

// Client gives access to the real client.
func (b *V1) Client(c string) *v1c.Client { return b.cs[c] }

func itemFromCore(m map[string]*mtypes.Item) Item {
	out := Item{}
	for k, v := range m {
		out[k] = fromCore(v)
	}
	return out
}

func fromCore(a *mtypes.Item) Value {
	if a == nil {
		return Value{T: "NONE"}
	}
	return FromV1(&dynamodb.AttributeValue{B: a.B, BOOL: a.BOOL, BS: a.BS, N: a.N, NS: a.NS, NULL: a.NULL, S: a.S, SS: a.SS,
		L: func() []*dynamodb.AttributeValue {
			if a.L == nil {
				return nil
			}
			l := make([]*dynamodb.AttributeValue, len(a.L))
			for i, x := range a.L {
				v := ToV1(fromCore(x))
				l[i] = v
			}
			return l
		}(),
		M: func() map[string]*dynamodb.AttributeValue {
			if a.M == nil {
				return nil
			}
			m := map[string]*dynamodb.AttributeValue{}
			for k, x := range a.M {
				m[k] = ToV1(fromCore(x))
			}
			return m
		}()})
}

func (b *V1) errResp(err error) *Resp {
	r := NewResp()
	if err == nil {
		return r
	}
	r.Msg = err.Error()
	if cls, ok := classifyCommon(err, v1c.ErrForcedFailure); ok {
		r.Err = cls
		return r
	}
	var ccf *mtypes.ConditionalCheckFailedException
	if errors.As(err, &ccf) {
		r.Err = "ccf"
		r.CcfItem = optOf(itemFromCore(ccf.Item))
		return r
	}
	var ae awserr.Error
	if errors.As(err, &ae) {
		r.Err = classOfCode(ae.Code())
		return r
	}
	var cd coder
	if errors.As(err, &cd) {
		r.Err = classOfCode(cd.Code())
		return r
	}
	r.Err = "other"
	return r
}

func v1KeySchema(hash string, rng string) []*dynamodb.KeySchemaElement {
	ks := []*dynamodb.KeySchemaElement{{AttributeName: aws.String(hash), KeyType: aws.String("HASH")}}
	if rng != "" {
		ks = append(ks, &dynamodb.KeySchemaElement{AttributeName: aws.String(rng), KeyType: aws.String("RANGE")})
	}
	return ks
}

func v1Desc(td *dynamodb.TableDescription) Desc {
	d := Desc{Gsis: []IdxDesc{}, Lsis: []IdxDesc{}}
	if td == nil {
		return d
	}
	if td.ItemCount != nil {
		d.Count = int(*td.ItemCount)
	}
	ksOf := func(ks []*dynamodb.KeySchemaElement) (string, string) {
		h, r := "", ""
		for _, k := range ks {
			if k == nil {
				continue
			}
			if aws.StringValue(k.KeyType) == "HASH" {
				h = aws.StringValue(k.AttributeName)
			} else {
				r = aws.StringValue(k.AttributeName)
			}
		}
		return h, r
	}
	d.Hash, d.Range = ksOf(td.KeySchema)
	for _, g := range td.GlobalSecondaryIndexes {
		x := IdxDesc{Name: aws.StringValue(g.IndexName)}
		x.Hash, x.Range = ksOf(g.KeySchema)
		if g.ItemCount != nil {
			x.Count = OptInt{Some: true, N: int(*g.ItemCount)}
		}
		if g.Projection != nil {
			x.Proj = aws.StringValue(g.Projection.ProjectionType)
		}
		d.Gsis = append(d.Gsis, x)
	}
	for _, g := range td.LocalSecondaryIndexes {
		x := IdxDesc{Name: aws.StringValue(g.IndexName)}
		x.Hash, x.Range = ksOf(g.KeySchema)
		if g.ItemCount != nil {
			x.Count = OptInt{Some: true, N: int(*g.ItemCount)}
		}
		if g.Projection != nil {
			x.Proj = aws.StringValue(g.Projection.ProjectionType)
		}
		d.Lsis = append(d.Lsis, x)
	}
	sort.Slice(d.Gsis, func(i, j int) bool { return d.Gsis[i].Name < d.Gsis[j].Name })
	sort.Slice(d.Lsis, func(i, j int) bool { return d.Lsis[i].Name < d.Lsis[j].Name })
	return d
}

// AddTable uses the library's helper.
func (b *V1) AddTable(c, t, hash, rng string) *Resp {
	return b.guard(func() *Resp { return b.errResp(v1c.AddTable(b.cs[c], t, hash, rng)) })
}

// AddIndex uses the library's helper.
func (b *V1) AddIndex(c, t, index, hash, rng string) *Resp {
	return b.guard(func() *Resp { return b.errResp(v1c.AddIndex(b.cs[c], t, index, hash, rng)) })
}

// DeleteIndex issues UpdateTable with a Delete action.
func (b *V1) DeleteIndex(c, t, index string) *Resp {
	return b.guard(func() *Resp {
		_, err := b.cs[c].UpdateTableWithContext(bgv1, &dynamodb.UpdateTableInput{TableName: aws.String(t),
			GlobalSecondaryIndexUpdates: []*dynamodb.GlobalSecondaryIndexUpdate{{Delete: &dynamodb.DeleteGlobalSecondaryIndexAction{IndexName: aws.String(index)}}}})
		return b.errResp(err)
	})
}

// CreateTable issues the full request.
func (b *V1) CreateTable(c string, ev *Event) *Resp {
	return b.guard(func() *Resp {
		in := &dynamodb.CreateTableInput{TableName: aws.String(ev.T)}
		if ev.Billing != "" {
			in.BillingMode = aws.String(ev.Billing)
		}
		for _, a := range ev.Attrs {
			in.AttributeDefinitions = append(in.AttributeDefinitions, &dynamodb.AttributeDefinition{AttributeName: aws.String(a.N), AttributeType: aws.String(a.Ty)})
		}
		rng := ""
		if rd := ev.RangeDef(); rd.Some {
			rng = rd.N
		}
		in.KeySchema = v1KeySchema(ev.HashDef().N, rng)
		thr := &dynamodb.ProvisionedThroughput{ReadCapacityUnits: aws.Int64(5), WriteCapacityUnits: aws.Int64(5)}
		if ev.Thr {
			in.ProvisionedThroughput = thr
		}
		for _, g := range ev.Gsis {
			r := ""
			if g.Range.Some {
				r = g.Range.N
			}
			x := &dynamodb.GlobalSecondaryIndex{IndexName: aws.String(g.Name), KeySchema: v1KeySchema(g.Hash, r),
				Projection: &dynamodb.Projection{ProjectionType: aws.String(g.Proj)}}
			if g.Thr {
				x.ProvisionedThroughput = thr
			}
			in.GlobalSecondaryIndexes = append(in.GlobalSecondaryIndexes, x)
		}
		for _, g := range ev.Lsis {
			r := ""
			if g.Range.Some {
				r = g.Range.N
			}
			in.LocalSecondaryIndexes = append(in.LocalSecondaryIndexes, &dynamodb.LocalSecondaryIndex{IndexName: aws.String(g.Name),
				KeySchema: v1KeySchema(g.Hash, r), Projection: &dynamodb.Projection{ProjectionType: aws.String(g.Proj)}})
		}
		out, err := b.cs[c].CreateTableWithContext(bgv1, in)
		r := b.errResp(err)
		if err == nil && out != nil {
			r.Desc = v1Desc(out.TableDescription)
		}
		return r
	})
}

// DeleteTable deletes a table.
func (b *V1) DeleteTable(c, t string) *Resp {
	return b.guard(func() *Resp {
		_, err := b.cs[c].DeleteTableWithContext(bgv1, &dynamodb.DeleteTableInput{TableName: aws.String(t)})
		return b.errResp(err)
	})
}

// Describe describes a table.
func (b *V1) Describe(c, t string) *Resp {
	return b.guard(func() *Resp {
		out, err := b.cs[c].DescribeTableWithContext(bgv1, &dynamodb.DescribeTableInput{TableName: aws.String(t)})
		r := b.errResp(err)
		if err == nil && out != nil {
			r.Desc = v1Desc(out.Table)
		}
		return r
	})
}

// Clear uses the library's helper.
func (b *V1) Clear(c, t string) *Resp {
	return b.guard(func() *Resp { return b.errResp(v1c.ClearTable(b.cs[c], t)) })
}

func v1Names(m map[string]string) map[string]*string {
	if len(m) == 0 {
		return nil
	}
	out := map[string]*string{}
	for k, v := range m {
		out[k] = strp(v)
	}
	return out
}

func v1Values(it Item) map[string]*dynamodb.AttributeValue {
	if len(it) == 0 {
		return nil
	}
	return ItemToV1(it)
}

// Put issues PutItem.
func (b *V1) Put(c, t string, item Item, w WriteArgs) *Resp {
	return b.guard(func() *Resp {
		out, err := b.cs[c].PutItemWithContext(bgv1, &dynamodb.PutItemInput{TableName: aws.String(t), Item: ItemToV1(item), ConditionExpression: w.Cond,
			ExpressionAttributeNames: v1Names(w.Names), ExpressionAttributeValues: v1Values(w.Values)})
		r := b.errResp(err)
		if err == nil && out != nil {
			r.Attrs = optOf(ItemFromV1(out.Attributes))
		}
		return r
	})
}

// Get issues GetItem.
func (b *V1) Get(c, t string, key Item) *Resp {
	return b.guard(func() *Resp {
		out, err := b.cs[c].GetItemWithContext(bgv1, &dynamodb.GetItemInput{TableName: aws.String(t), Key: ItemToV1(key)})
		r := b.errResp(err)
		if err == nil && out != nil {
			r.Item = optOf(ItemFromV1(out.Item))
		}
		return r
	})
}

// GetProj issues GetItem with a ProjectionExpression.
func (b *V1) GetProj(c, t string, key Item, proj []string) *Resp {
	return b.guard(func() *Resp {
		out, err := b.cs[c].GetItemWithContext(bgv1, &dynamodb.GetItemInput{TableName: aws.String(t), Key: ItemToV1(key), ProjectionExpression: aws.String(strings.Join(proj, ", "))})
		r := b.errResp(err)
		if err == nil && out != nil {
			r.Item = optOf(ItemFromV1(out.Item))
		}
		return r
	})
}

// Update issues UpdateItem with ReturnValues = ALL_NEW.
func (b *V1) Update(c, t string, key Item, upd string, w WriteArgs) *Resp {
	return b.guard(func() *Resp {
		out, err := b.cs[c].UpdateItemWithContext(bgv1, &dynamodb.UpdateItemInput{TableName: aws.String(t), Key: ItemToV1(key), UpdateExpression: aws.String(upd),
			ConditionExpression: w.Cond, ExpressionAttributeNames: v1Names(w.Names), ExpressionAttributeValues: v1Values(w.Values),
			ReturnValues: aws.String("ALL_NEW")})
		r := b.errResp(err)
		if err == nil && out != nil {
			r.Attrs = optOf(ItemFromV1(out.Attributes))
		}
		return r
	})
}

// Delete issues DeleteItem.
func (b *V1) Delete(c, t string, key Item, w WriteArgs) *Resp {
	return b.guard(func() *Resp {
		in := &dynamodb.DeleteItemInput{TableName: aws.String(t), Key: ItemToV1(key), ConditionExpression: w.Cond,
			ExpressionAttributeNames: v1Names(w.Names), ExpressionAttributeValues: v1Values(w.Values)}
		if w.Retold {
			in.ReturnValues = aws.String("ALL_OLD")
		}
		if w.RetVals != "" {
			in.ReturnValues = aws.String(w.RetVals)
		}
		out, err := b.cs[c].DeleteItemWithContext(bgv1, in)
		r := b.errResp(err)
		if err == nil && out != nil {
			r.Attrs = optOf(ItemFromV1(out.Attributes))
		}
		return r
	})
}

func v1Items(in []map[string]*dynamodb.AttributeValue) []Item {
	out := make([]Item, len(in))
	for i, m := range in {
		out[i] = ItemFromV1(m)
	}
	return out
}

// Read issues Query or Scan.
func (b *V1) Read(c string, q *ReadArgs) *Resp {
	return b.guard(func() *Resp {
		var lim *int64
		if q.Limit != nil {
			lim = aws.Int64(int64(*q.Limit))
		}
		var esk map[string]*dynamodb.AttributeValue
		if q.Esk != nil { // an empty start key is passed as an empty, non-nil map
			esk = ItemToV1(q.Esk)
		}
		if q.Kind == "query" {
			out, err := b.cs[c].QueryWithContext(bgv1, &dynamodb.QueryInput{TableName: aws.String(q.T), IndexName: q.Index,
				KeyConditionExpression: aws.String(q.Kc), FilterExpression: q.Filter, ProjectionExpression: q.Proj, ExpressionAttributeNames: v1Names(q.Names),
				ExpressionAttributeValues: v1Values(q.Values), ScanIndexForward: q.Fwd, Limit: lim, ExclusiveStartKey: esk})
			r := b.errResp(err)
			if err == nil && out != nil {
				r.Items = v1Items(out.Items)
				r.Count = int(aws.Int64Value(out.Count))
				r.Lek = optKeyOf(ItemFromV1(out.LastEvaluatedKey))
			}
			return r
		}
		out, err := b.cs[c].ScanWithContext(bgv1, &dynamodb.ScanInput{TableName: aws.String(q.T), IndexName: q.Index,
			FilterExpression: q.Filter, ProjectionExpression: q.Proj, ExpressionAttributeNames: v1Names(q.Names),
			ExpressionAttributeValues: v1Values(q.Values), Limit: lim, ExclusiveStartKey: esk})
		r := b.errResp(err)
		if err == nil && out != nil {
			r.Items = v1Items(out.Items)
			r.Count = int(aws.Int64Value(out.Count))
			r.Lek = optKeyOf(ItemFromV1(out.LastEvaluatedKey))
		}
		return r
	})
}

// BatchWrite issues BatchWriteItem.
func (b *V1) BatchWrite(c string, reqs []WriteReq) *Resp {
	return b.guard(func() *Resp {
		in := &dynamodb.BatchWriteItemInput{RequestItems: map[string][]*dynamodb.WriteRequest{}}
		for _, rq := range reqs {
			wr := &dynamodb.WriteRequest{}
			if rq.Put.Some {
				wr.PutRequest = &dynamodb.PutRequest{Item: ItemToV1(rq.Put.I)}
			}
			if rq.Del.Some {
				wr.DeleteRequest = &dynamodb.DeleteRequest{Key: ItemToV1(rq.Del.K)}
			}
			in.RequestItems[rq.T] = append(in.RequestItems[rq.T], wr)
		}
		out, err := b.cs[c].BatchWriteItemWithContext(bgv1, in)
		r := b.errResp(err)
		if err == nil && out != nil {
			tables := make([]string, 0, len(out.UnprocessedItems))
			for t := range out.UnprocessedItems {
				tables = append(tables, t)
			}
			sort.Strings(tables)
			for _, t := range tables {
				for _, wr := range out.UnprocessedItems[t] {
					x := WriteReq{T: t, Put: OptItem{I: Item{}}, Del: OptKey{K: Item{}}}
					if wr.PutRequest != nil {
						x.Put = OptItem{Some: true, I: ItemFromV1(wr.PutRequest.Item)}
					}
					if wr.DeleteRequest != nil {
						x.Del = OptKey{Some: true, K: ItemFromV1(wr.DeleteRequest.Key)}
					}
					r.Unproc = append(r.Unproc, x)
				}
			}
		}
		return r
	})
}

// BatchGet issues BatchGetItem.
func (b *V1) BatchGet(c string, reqs []GetReq) *Resp {
	return b.guard(func() *Resp {
		in := &dynamodb.BatchGetItemInput{RequestItems: map[string]*dynamodb.KeysAndAttributes{}}
		for _, rq := range reqs {
			ka := in.RequestItems[rq.T]
			if ka == nil {
				ka = &dynamodb.KeysAndAttributes{}
				in.RequestItems[rq.T] = ka
			}
			for _, k := range rq.Keys {
				ka.Keys = append(ka.Keys, ItemToV1(k))
			}
		}
		out, err := b.cs[c].BatchGetItemWithContext(bgv1, in)
		r := b.errResp(err)
		if err == nil && out != nil {
			tables := make([]string, 0)
			for t := range out.Responses {
				tables = append(tables, t)
			}
			sort.Strings(tables)
			for _, t := range tables {
				r.Responses = append(r.Responses, TableItems{T: t, Items: v1Items(out.Responses[t])})
			}
			tables = tables[:0]
			for t := range out.UnprocessedKeys {
				tables = append(tables, t)
			}
			sort.Strings(tables)
			for _, t := range tables {
				if out.UnprocessedKeys[t] != nil {
					r.UnprocKeys = append(r.UnprocKeys, TableKeys{T: t, Keys: v1Items(out.UnprocessedKeys[t].Keys)})
				}
			}
		}
		return r
	})
}

// Transact issues an empty TransactWriteItems.
func (b *V1) Transact(c string) *Resp {
	return b.guard(func() *Resp {
		_, err := b.cs[c].TransactWriteItemsWithContext(bgv1, &dynamodb.TransactWriteItemsInput{})
		return b.errResp(err)
	})
}

// Fail switches the emulated failure mode.
func (b *V1) Fail(c, mode string) *Resp {
	return b.guard(func() *Resp {
		switch mode {
		case "none":
			v1c.EmulateFailure(b.cs[c], v1c.FailureConditionNone)
		case "internal":
			v1c.EmulateFailure(b.cs[c], v1c.FailureConditionInternalServerError)
		case "deprecated":
			v1c.ActiveForceFailure(b.cs[c])
		case "deactivate":
			v1c.DeactiveForceFailure(b.cs[c])
		}
		return NewResp()
	})
}

// Native returns the client's native interpreter (registrations go through it, as in the library's own tests).
func (b *V1) Native(c string) *interpreter.Native { return b.cs[c].GetNativeInterpreter() }

// SetNative installs another native interpreter instance.
func (b *V1) SetNative(c string, n *interpreter.Native) { b.cs[c].SetInterpreter(n) }

// ActivateNative switches the client to the native interpreter.
func (b *V1) ActivateNative(c string) { b.cs[c].ActivateNativeInterpreter() }
