package h

import (
	v2types "github.com/aws/aws-sdk-go-v2/service/dynamodb/types"
	v1ddb "github.com/aws/aws-sdk-go/service/dynamodb"
)

// ---- SDK v1 ----

func strp(s string) *string { return &s }
func boolp(b bool) *bool    { return &b }
func i64p(i int64) *int64   { return &i }

func cloneBytes(b []byte) []byte {
	out := make([]byte, len(b))
	copy(out, b)
	return out
}

// ToV1 builds a fresh SDK v1 attribute value.
func ToV1(v Value) *v1ddb.AttributeValue {
	switch v.T {
	case "S":
		return &v1ddb.AttributeValue{S: strp(string(v.Str))}
	case "B":
		return &v1ddb.AttributeValue{B: cloneBytes(v.Str)}
	case "N":
		return &v1ddb.AttributeValue{N: strp(v.Num)}
	case "BOOL":
		return &v1ddb.AttributeValue{BOOL: boolp(v.Bool)}
	case "NULL":
		return &v1ddb.AttributeValue{NULL: boolp(true)}
	case "L":
		l := make([]*v1ddb.AttributeValue, len(v.L))
		for i, x := range v.L {
			l[i] = ToV1(x)
		}
		return &v1ddb.AttributeValue{L: l}
	case "M":
		m := make(map[string]*v1ddb.AttributeValue, len(v.M))
		for k, x := range v.M {
			m[k] = ToV1(x)
		}
		return &v1ddb.AttributeValue{M: m}
	case "SS":
		ss := make([]*string, len(v.SS))
		for i, x := range v.SS {
			ss[i] = strp(string(x))
		}
		return &v1ddb.AttributeValue{SS: ss}
	case "BS":
		bs := make([][]byte, len(v.SS))
		for i, x := range v.SS {
			bs[i] = cloneBytes(x)
		}
		return &v1ddb.AttributeValue{BS: bs}
	case "NS":
		ns := make([]*string, len(v.NS))
		for i, x := range v.NS {
			ns[i] = strp(x)
		}
		return &v1ddb.AttributeValue{NS: ns}
	}
	return &v1ddb.AttributeValue{}
}

// ItemToV1 builds a fresh SDK v1 item; nil for a nil item.
func ItemToV1(it Item) map[string]*v1ddb.AttributeValue {
	if it == nil {
		return nil
	}
	out := make(map[string]*v1ddb.AttributeValue, len(it))
	for k, v := range it {
		out[k] = ToV1(v)
	}
	return out
}

// FromV1 reads an SDK v1 attribute value; exactly the populated member decides the type.
func FromV1(a *v1ddb.AttributeValue) Value {
	switch {
	case a == nil:
		return Value{T: "NONE"}
	case a.S != nil:
		return Value{T: "S", Str: []byte(*a.S)}
	case a.N != nil:
		return Value{T: "N", Num: *a.N}
	case a.B != nil:
		return Value{T: "B", Str: cloneBytes(a.B)}
	case a.BOOL != nil:
		return Value{T: "BOOL", Bool: *a.BOOL}
	case a.NULL != nil && *a.NULL:
		return Value{T: "NULL"}
	case a.L != nil:
		l := make([]Value, len(a.L))
		for i, x := range a.L {
			l[i] = FromV1(x)
		}
		return Value{T: "L", L: l}
	case a.M != nil:
		m := make(map[string]Value, len(a.M))
		for k, x := range a.M {
			m[k] = FromV1(x)
		}
		return Value{T: "M", M: m}
	case a.SS != nil:
		ss := make([][]byte, len(a.SS))
		for i, x := range a.SS {
			if x != nil {
				ss[i] = []byte(*x)
			}
		}
		return Value{T: "SS", SS: ss}
	case a.NS != nil:
		ns := make([]string, len(a.NS))
		for i, x := range a.NS {
			if x != nil {
				ns[i] = *x
			}
		}
		return Value{T: "NS", NS: ns}
	case a.BS != nil:
		bs := make([][]byte, len(a.BS))
		for i, x := range a.BS {
			bs[i] = cloneBytes(x)
		}
		return Value{T: "BS", SS: bs}
	}
	return Value{T: "NONE"}
}

// ItemFromV1 reads an SDK v1 item.
func ItemFromV1(m map[string]*v1ddb.AttributeValue) Item {
	out := Item{}
	for k, v := range m {
		out[k] = FromV1(v)
	}
	return out
}

// ---- SDK v2 ----

// ToV2 builds a fresh SDK v2 attribute value.
func ToV2(v Value) v2types.AttributeValue {
	switch v.T {
	case "S":
		return &v2types.AttributeValueMemberS{Value: string(v.Str)}
	case "B":
		return &v2types.AttributeValueMemberB{Value: cloneBytes(v.Str)}
	case "N":
		return &v2types.AttributeValueMemberN{Value: v.Num}
	case "BOOL":
		return &v2types.AttributeValueMemberBOOL{Value: v.Bool}
	case "NULL":
		return &v2types.AttributeValueMemberNULL{Value: true}
	case "L":
		l := make([]v2types.AttributeValue, len(v.L))
		for i, x := range v.L {
			l[i] = ToV2(x)
		}
		return &v2types.AttributeValueMemberL{Value: l}
	case "M":
		m := make(map[string]v2types.AttributeValue, len(v.M))
		for k, x := range v.M {
			m[k] = ToV2(x)
		}
		return &v2types.AttributeValueMemberM{Value: m}
	case "SS":
		ss := make([]string, len(v.SS))
		for i, x := range v.SS {
			ss[i] = string(x)
		}
		return &v2types.AttributeValueMemberSS{Value: ss}
	case "BS":
		bs := make([][]byte, len(v.SS))
		for i, x := range v.SS {
			bs[i] = cloneBytes(x)
		}
		return &v2types.AttributeValueMemberBS{Value: bs}
	case "NS":
		ns := make([]string, len(v.NS))
		copy(ns, v.NS)
		return &v2types.AttributeValueMemberNS{Value: ns}
	}
	return nil
}

// ItemToV2 builds a fresh SDK v2 item; nil for a nil item.
func ItemToV2(it Item) map[string]v2types.AttributeValue {
	if it == nil {
		return nil
	}
	out := make(map[string]v2types.AttributeValue, len(it))
	for k, v := range it {
		out[k] = ToV2(v)
	}
	return out
}

// FromV2 reads an SDK v2 attribute value.
func FromV2(a v2types.AttributeValue) Value {
	switch x := a.(type) {
	case *v2types.AttributeValueMemberS:
		return Value{T: "S", Str: []byte(x.Value)}
	case *v2types.AttributeValueMemberN:
		return Value{T: "N", Num: x.Value}
	case *v2types.AttributeValueMemberB:
		return Value{T: "B", Str: cloneBytes(x.Value)}
	case *v2types.AttributeValueMemberBOOL:
		return Value{T: "BOOL", Bool: x.Value}
	case *v2types.AttributeValueMemberNULL:
		if !x.Value { // NULL: false is not a value DynamoDB has; shown as "no type" so that the judge sees it
			return Value{T: "NONE"}
		}
		return Value{T: "NULL"}
	case *v2types.AttributeValueMemberL:
		l := make([]Value, len(x.Value))
		for i, y := range x.Value {
			l[i] = FromV2(y)
		}
		return Value{T: "L", L: l}
	case *v2types.AttributeValueMemberM:
		m := make(map[string]Value, len(x.Value))
		for k, y := range x.Value {
			m[k] = FromV2(y)
		}
		return Value{T: "M", M: m}
	case *v2types.AttributeValueMemberSS:
		ss := make([][]byte, len(x.Value))
		for i, y := range x.Value {
			ss[i] = []byte(y)
		}
		return Value{T: "SS", SS: ss}
	case *v2types.AttributeValueMemberNS:
		ns := make([]string, len(x.Value))
		copy(ns, x.Value)
		return Value{T: "NS", NS: ns}
	case *v2types.AttributeValueMemberBS:
		bs := make([][]byte, len(x.Value))
		for i, y := range x.Value {
			bs[i] = cloneBytes(y)
		}
		return Value{T: "BS", SS: bs}
	}
	return Value{T: "NONE"}
}

// ItemFromV2 reads an SDK v2 item.
func ItemFromV2(m map[string]v2types.AttributeValue) Item {
	out := Item{}
	for k, v := range m {
		out[k] = FromV2(v)
	}
	return out
}
