// Package h is the conformance harness: it turns abstract operations (the records of MiniDyn.tla) into
// calls on the real SDK v1 and SDK v2 minidyn clients built from /repo, and normalises what they answer.
package h

import (
	"bytes"
	"encoding/json"
	"fmt"
	"sort"
	"strings"
)

// Value is the abstract attribute value shared with the TLA+ specification (Values.tla).
type Value struct {
	T    string
	Str  []byte           // S, B
	Num  string           // N: numeral text
	Bool bool             // BOOL
	L    []Value          // L
	M    map[string]Value // M
	SS   [][]byte         // SS, BS
	NS   []string         // NS
}

// Item is an abstract item.
type Item map[string]Value

type numeral struct {
	Neg bool  `json:"neg"`
	D   []int `json:"d"`
	E   int   `json:"e"`
	Sp  []int `json:"sp,omitempty"`
}

func bytesToInts(b []byte) []int {
	out := make([]int, len(b))
	for i, c := range b {
		out[i] = int(c)
	}
	return out
}

func intsToBytes(a []int) []byte {
	out := make([]byte, len(a))
	for i, c := range a {
		out[i] = byte(c)
	}
	return out
}

// ParseNumeral splits a numeral text into sign, digits and exponent; ok=false if it is not a numeral.
func ParseNumeral(s string) (numeral, bool) {
	n := numeral{D: []int{}}
	i := 0
	if i < len(s) && (s[i] == '+' || s[i] == '-') {
		n.Neg = s[i] == '-'
		i++
	}
	digits := 0
	seenPoint := false
	frac := 0
	for ; i < len(s); i++ {
		c := s[i]
		if c >= '0' && c <= '9' {
			n.D = append(n.D, int(c-'0'))
			digits++
			if seenPoint {
				frac++
			}
			continue
		}
		if c == '.' && !seenPoint {
			seenPoint = true
			continue
		}
		break
	}
	if digits == 0 {
		return n, false
	}
	exp := 0
	if i < len(s) && (s[i] == 'e' || s[i] == 'E') {
		i++
		neg := false
		if i < len(s) && (s[i] == '+' || s[i] == '-') {
			neg = s[i] == '-'
			i++
		}
		ed := 0
		for ; i < len(s) && s[i] >= '0' && s[i] <= '9'; i++ {
			exp = exp*10 + int(s[i]-'0')
			ed++
			if exp > 100000 {
				return n, false
			}
		}
		if ed == 0 {
			return n, false
		}
		if neg {
			exp = -exp
		}
	}
	if i != len(s) {
		return n, false
	}
	n.E = exp - frac
	return n, true
}

// RenderNumeral prints a numeral: the explicit spelling if given, else plain positional notation.
func RenderNumeral(n numeral) string {
	if len(n.Sp) > 0 {
		return string(intsToBytes(n.Sp))
	}
	var b strings.Builder
	if n.Neg {
		b.WriteByte('-')
	}
	d := n.D
	if len(d) == 0 {
		d = []int{0}
	}
	if n.E >= 0 {
		for _, x := range d {
			b.WriteByte(byte('0' + x))
		}
		for i := 0; i < n.E; i++ {
			b.WriteByte('0')
		}
		return b.String()
	}
	frac := -n.E
	for len(d) <= frac {
		d = append([]int{0}, d...)
	}
	for i, x := range d {
		if i == len(d)-frac {
			b.WriteByte('.')
		}
		b.WriteByte(byte('0' + x))
	}
	return b.String()
}

func numeralJSON(s string) interface{} {
	n, ok := ParseNumeral(s)
	if !ok {
		return map[string]interface{}{"neg": false, "d": []int{}, "e": 0, "bad": bytesToInts([]byte(s))}
	}
	return map[string]interface{}{"neg": n.Neg, "d": n.D, "e": n.E}
}

var payloadField = map[string]string{"S": "s", "B": "b", "N": "n", "BOOL": "bool", "NULL": "null", "L": "l", "M": "m",
	"SS": "ss", "NS": "ns", "BS": "bs"}

// MarshalJSON renders the value in the encoding of Values.tla: {"t": tag, <payload field of the tag>: payload}.
func (v Value) MarshalJSON() ([]byte, error) {
	var p interface{}
	switch v.T {
	case "S", "B":
		p = bytesToInts(v.Str)
	case "N":
		p = numeralJSON(v.Num)
	case "BOOL":
		p = v.Bool
	case "NULL":
		p = 0
	case "L":
		l := v.L
		if l == nil {
			l = []Value{}
		}
		p = l
	case "M":
		m := v.M
		if m == nil {
			m = map[string]Value{}
		}
		p = m
	case "SS", "BS":
		out := make([][]int, len(v.SS))
		for i, s := range v.SS {
			out[i] = bytesToInts(s)
		}
		p = out
	case "NS":
		out := make([]interface{}, len(v.NS))
		for i, s := range v.NS {
			out[i] = numeralJSON(s)
		}
		p = out
	default:
		return json.Marshal(map[string]interface{}{"t": v.T, "none": 0})
	}
	return json.Marshal(map[string]interface{}{"t": v.T, payloadField[v.T]: p})
}

func isEmptyArray(raw json.RawMessage) bool {
	return string(bytes.TrimSpace(raw)) == "[]"
}

// UnmarshalJSON reads the encoding of Values.tla (as produced by TLC's ToJson or by this package).
func (v *Value) UnmarshalJSON(data []byte) error {
	var raw map[string]json.RawMessage
	if err := json.Unmarshal(data, &raw); err != nil {
		return err
	}
	var w struct {
		T string
		V json.RawMessage
	}
	if err := json.Unmarshal(raw["t"], &w.T); err != nil {
		return err
	}
	w.V = raw[payloadField[w.T]]
	if w.V == nil && w.T != "NULL" {
		return fmt.Errorf("value of type %q without payload field", w.T)
	}
	v.T = w.T
	switch w.T {
	case "S", "B":
		var a []int
		if err := json.Unmarshal(w.V, &a); err != nil {
			return err
		}
		v.Str = intsToBytes(a)
	case "N":
		var n numeral
		if err := json.Unmarshal(w.V, &n); err != nil {
			return err
		}
		v.Num = RenderNumeral(n)
	case "BOOL":
		return json.Unmarshal(w.V, &v.Bool)
	case "NULL":
	case "L":
		v.L = []Value{}
		return json.Unmarshal(w.V, &v.L)
	case "M":
		v.M = map[string]Value{}
		if isEmptyArray(w.V) {
			return nil
		}
		return json.Unmarshal(w.V, &v.M)
	case "SS", "BS":
		var a [][]int
		if err := json.Unmarshal(w.V, &a); err != nil {
			return err
		}
		v.SS = make([][]byte, len(a))
		for i, s := range a {
			v.SS[i] = intsToBytes(s)
		}
	case "NS":
		var a []numeral
		if err := json.Unmarshal(w.V, &a); err != nil {
			return err
		}
		v.NS = make([]string, len(a))
		for i, n := range a {
			v.NS[i] = RenderNumeral(n)
		}
	default:
		return fmt.Errorf("unknown value tag %q", w.T)
	}
	return nil
}

// UnmarshalJSON accepts {} and TLC's [] for the empty item.
func (it *Item) UnmarshalJSON(data []byte) error {
	*it = Item{}
	if isEmptyArray(data) {
		return nil
	}
	m := map[string]Value{}
	if err := json.Unmarshal(data, &m); err != nil {
		return err
	}
	*it = m
	return nil
}

// StrMap is a map[string]string that also accepts TLC's [] for the empty function.
type StrMap map[string]string

// UnmarshalJSON accepts {} and [].
func (s *StrMap) UnmarshalJSON(data []byte) error {
	*s = StrMap{}
	if isEmptyArray(data) {
		return nil
	}
	m := map[string]string{}
	if err := json.Unmarshal(data, &m); err != nil {
		return err
	}
	*s = m
	return nil
}

// CanonKey renders an item deterministically (used to deduplicate keys; not a verdict).
func CanonKey(it Item) string {
	names := make([]string, 0, len(it))
	for k := range it {
		names = append(names, k)
	}
	sort.Strings(names)
	var b strings.Builder
	for _, k := range names {
		j, _ := json.Marshal(it[k])
		b.WriteString(k)
		b.WriteByte('=')
		b.Write(j)
		b.WriteByte(';')
	}
	return b.String()
}

// SVal builds a string value.
func SVal(s string) Value { return Value{T: "S", Str: []byte(s)} }
