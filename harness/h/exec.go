package h

import (
	"encoding/json"
	"sort"
	"strings"

	"github.com/truora/minidyn/interpreter"
	mtypes "github.com/truora/minidyn/types"
)

func textOf(override *[]int, print func() string) string {
	if override != nil {
		return string(intsToBytes(*override))
	}
	return print()
}

func (e *Event) condText() *string {
	if e.CondText != nil {
		s := string(intsToBytes(*e.CondText))
		return &s
	}
	if !e.Cond.Some {
		return nil
	}
	s := PrintCond(e.Cond.Ast)
	return &s
}

func (e *Event) writeArgs() WriteArgs {
	return WriteArgs{Cond: e.condText(), Names: e.Names, Values: e.Values, Rvf: e.Rvf, Retold: e.Retold, RetVals: e.RetVals}
}

func (e *Event) readArgs() *ReadArgs {
	q := &ReadArgs{T: e.T, Kind: e.Kind, Names: e.Names, Values: e.Values}
	if ix := e.IndexOpt(); ix.Some {
		n := ix.N
		q.Index = &n
	}
	if e.Kind == "query" {
		q.Kc = textOf(e.KcText, func() string { return PrintCond(e.Kc) })
		f := e.Fwd
		q.Fwd = &f
	}
	if e.FilterText != nil {
		s := string(intsToBytes(*e.FilterText))
		q.Filter = &s
	} else if e.Filter.Some {
		s := PrintCond(e.Filter.Ast)
		q.Filter = &s
	}
	if e.Limit.Some {
		n := e.Limit.N
		q.Limit = &n
	}
	if e.Esk.Some {
		q.Esk = e.Esk.K
	}
	if len(e.Proj) > 0 {
		s := strings.Join(e.Proj, ", ")
		q.Proj = &s
	}
	return q
}

var shapes = map[string]string{"GetItem": "get", "PutItem": "write", "UpdateItem": "write", "DeleteItem": "write",
	"Query": "read", "Scan": "read", "DescribeTable": "desc", "CreateTable": "desc", "AddTable": "desc",
	"BatchWrite": "bw", "BatchGet": "bg", "Walk": "walk", "AliasProbe": "alias"}

// Exec performs one abstract operation on a back end.
func Exec(p Prim, e *Event) *Resp {
	r := exec(p, e)
	r.shape = shapes[e.Op]
	return r
}

func exec(p Prim, e *Event) *Resp {
	switch e.Op {
	case "AddTable":
		return p.AddTable(e.C, e.T, e.HashName(), e.RangeName())
	case "CreateTable":
		return p.CreateTable(e.C, e)
	case "AddIndex":
		return p.AddIndex(e.C, e.T, e.IndexName(), e.HashName(), e.RangeName())
	case "DeleteIndex":
		return p.DeleteIndex(e.C, e.T, e.IndexName())
	case "DeleteTable":
		return p.DeleteTable(e.C, e.T)
	case "DescribeTable":
		return p.Describe(e.C, e.T)
	case "ClearTable":
		return p.Clear(e.C, e.T)
	case "PutItem":
		return p.Put(e.C, e.T, e.Item, e.writeArgs())
	case "GetItem":
		if len(e.Proj) > 0 {
			return p.GetProj(e.C, e.T, e.Key, e.Proj)
		}
		return p.Get(e.C, e.T, e.Key)
	case "UpdateItem":
		return p.Update(e.C, e.T, e.Key, textOf(e.UpdText, func() string { return PrintUpdate(e.Upd) }), e.writeArgs())
	case "DeleteItem":
		return p.Delete(e.C, e.T, e.Key, e.writeArgs())
	case "Query", "Scan":
		return p.Read(e.C, e.readArgs())
	case "Walk":
		return walk(p, e)
	case "BatchWrite":
		return p.BatchWrite(e.C, e.WReqs)
	case "BatchGet":
		return p.BatchGet(e.C, e.GReqs)
	case "Transact":
		return p.Transact(e.C)
	case "Fail":
		return p.Fail(e.C, e.Mode)
	case "AliasProbe":
		return p.AliasProbe(e.C, e.T, e.Kind, e.Item, e.Item2)
	case "NativeActivate":
		p.ActivateNative(e.C)
		return NewResp()
	}
	r := NewResp()
	r.Err = "unknown-op"
	return r
}

// walk = one unpaginated read, then the same request page by page with Limit; with e.Del the item named
// by the first LastEvaluatedKey is deleted before the second page is requested.
func walk(p Prim, e *Event) *Resp {
	r := NewResp()
	q := e.readArgs()
	q.Limit = nil
	q.Esk = nil
	r.Full = p.Read(e.C, q)
	r.Full.shape = "read"
	r.Pages = []*Resp{}
	r.Deleted = &OptKey{K: Item{}}
	if r.Full.Err != "none" {
		r.Err = r.Full.Err
		return r
	}
	d := p.Describe(e.C, e.T)
	maxPages := len(r.Full.Items) + d.Desc.Count + 4
	var esk Item
	for n := 0; n < maxPages; n++ {
		pq := e.readArgs()
		lim := e.Limit.N
		pq.Limit = &lim
		pq.Esk = esk
		pg := p.Read(e.C, pq)
		pg.shape = "read"
		r.Pages = append(r.Pages, pg)
		if pg.Err != "none" || !pg.Lek.Some {
			break
		}
		esk = pg.Lek.K
		if e.Del && n == 0 {
			key := Item{}
			if v, ok := esk[d.Desc.Hash]; ok {
				key[d.Desc.Hash] = v
			}
			if d.Desc.Range != "" {
				if v, ok := esk[d.Desc.Range]; ok {
					key[d.Desc.Range] = v
				}
			}
			dr := p.Delete(e.C, e.T, key, WriteArgs{})
			if dr.Err == "none" {
				r.Deleted = &OptKey{Some: true, K: key}
			}
		}
	}
	return r
}

// Known is what the harness has seen in a trace so far: table names, index names and key candidates.
type Known struct {
	tables []string
	idx    map[string][]string
	keys   map[string][]Item
}

// NewKnown returns an empty record.
func NewKnown() *Known {
	return &Known{idx: map[string][]string{}, keys: map[string][]Item{}}
}

func addUniq(l []string, s string) []string {
	for _, x := range l {
		if x == s {
			return l
		}
	}
	return append(l, s)
}

func (k *Known) forgetIndex(t, ix string) {
	out := k.idx[t][:0]
	for _, x := range k.idx[t] {
		if x != ix {
			out = append(out, x)
		}
	}
	k.idx[t] = out
}

// Learn records what an operation mentions.
func (k *Known) Learn(e *Event) {
	note := func(t string) {
		if t != "" {
			k.tables = addUniq(k.tables, t)
		}
	}
	note(e.T)
	switch e.Op {
	case "PutItem":
		k.keys[e.T] = append(k.keys[e.T], e.Item)
	case "GetItem", "UpdateItem", "DeleteItem":
		k.keys[e.T] = append(k.keys[e.T], e.Key)
	case "BatchWrite":
		for _, r := range e.WReqs {
			note(r.T)
			if r.Put.Some {
				k.keys[r.T] = append(k.keys[r.T], r.Put.I)
			}
			if r.Del.Some {
				k.keys[r.T] = append(k.keys[r.T], r.Del.K)
			}
		}
	case "BatchGet":
		for _, r := range e.GReqs {
			note(r.T)
			k.keys[r.T] = append(k.keys[r.T], r.Keys...)
		}
	}
}

func projectKey(it Item, hash, rng string) (Item, bool) {
	out := Item{}
	v, ok := it[hash]
	if !ok {
		return nil, false
	}
	out[hash] = v
	if rng != "" {
		v, ok := it[rng]
		if !ok {
			return nil, false
		}
		out[rng] = v
	}
	return out, true
}

// Observe reads everything the API shows of every known table of every client.
func Observe(p Prim, k *Known, failMode map[string]string) Obs {
	o := Obs{Some: true, Cs: []ClientObs{}}
	for _, c := range ClientIDs {
		if failMode[c] != "" && failMode[c] != "none" {
			p.Fail(c, "none")
		}
		co := ClientObs{C: c, Tables: []TableObs{}}
		for _, t := range k.tables {
			to := TableObs{T: t, Desc: Desc{Gsis: []IdxDesc{}, Lsis: []IdxDesc{}}, Scan: NewResp(), Gets: []GetObs{}, Idx: []IdxObs{}}
			d := p.Describe(c, t)
			if d.Err == "none" {
				to.Exists = true
				to.Desc = d.Desc
				to.Scan = p.Read(c, &ReadArgs{T: t, Kind: "scan"})
				to.Scan.shape = "read"
				seen := map[string]bool{}
				cands := append([]Item{}, k.keys[t]...)
				cands = append(cands, to.Scan.Items...)
				for _, cand := range cands {
					key, ok := projectKey(cand, d.Desc.Hash, d.Desc.Range)
					if !ok {
						continue
					}
					ck := CanonKey(key)
					if seen[ck] {
						continue
					}
					seen[ck] = true
					gr := p.Get(c, t, key)
					gr.shape = "get"
					to.Gets = append(to.Gets, GetObs{Key: key, R: gr})
				}
				names := append([]string{}, k.idx[c+"/"+t]...)
				hashOf := map[string]string{}
				for _, g := range append(append([]IdxDesc{}, d.Desc.Gsis...), d.Desc.Lsis...) {
					names = addUniq(names, g.Name)
					hashOf[g.Name] = g.Hash
				}
				sort.Strings(names)
				for _, ix := range names {
					n := ix
					io := IdxObs{Name: ix, Q: []PartObs{}}
					io.Scan = p.Read(c, &ReadArgs{T: t, Kind: "scan", Index: &n})
					io.Scan.shape = "read"
					if h, ok := hashOf[ix]; ok && io.Scan.Err == "none" {
						seenHk := map[string]bool{}
						for _, it := range to.Scan.Items {
							hv, ok := it[h]
							if !ok {
								continue
							}
							j, _ := json.Marshal(hv)
							if seenHk[string(j)] {
								continue
							}
							seenHk[string(j)] = true
							tr, fa := true, false
							mk := func(fwd *bool) *Resp {
								qr := p.Read(c, &ReadArgs{T: t, Kind: "query", Index: &n, Kc: "#vh = :vh",
									Names: map[string]string{"#vh": h}, Values: Item{":vh": hv}, Fwd: fwd})
								qr.shape = "read"
								return qr
							}
							io.Q = append(io.Q, PartObs{Hk: hv, Fwd: mk(&tr), Rev: mk(&fa)})
						}
					}
					// the observation of an index ends with the read it began with, so that - across the operation between two
					// observations - the last and the first read through every index are the same read in the same direction
					// (an implementation that caches something per read direction is then asked twice in a row); the two scans of
					// one observation must agree, the second one is what the judge sees
					again := p.Read(c, &ReadArgs{T: t, Kind: "scan", Index: &n})
					again.shape = "read"
					j1, _ := json.Marshal(io.Scan)
					j2, _ := json.Marshal(again)
					if string(j1) != string(j2) && again.Err == "none" && io.Scan.Err == "none" {
						again.Err = "other"
						again.Msg = "two scans of the index within one observation differ"
					}
					io.Scan = again
					to.Idx = append(to.Idx, io)
				}
			}
			co.Tables = append(co.Tables, to)
		}
		o.Cs = append(o.Cs, co)
		if failMode[c] != "" && failMode[c] != "none" {
			p.Fail(c, failMode[c])
		}
	}
	return o
}

// Runner replays traces against both SDK clients and writes judged-trace lines.
type Runner struct {
	P1, P2 Prim
	known  *Known
	fail   map[string]string
	Events int
	// C20: which registered callbacks ran during the current call (per back end), and whether the trace uses the
	// native interpreter at all (only then responses carry "fired")
	fired      [2]map[string]bool
	nativeSeen bool
	regs       map[string][]*Event // registration events per client, in order (for NativeSwap)
}

func firedList(m map[string]bool) []string {
	out := make([]string, 0, len(m))
	for k := range m {
		out = append(out, k)
	}
	sort.Strings(out)
	return out
}

// register installs an instrumented Go callback: it records that it ran and gives a fixed verdict (matchers) or
// sets one attribute (updaters), so that the judge can tell which registration decided an operation.
func (r *Runner) register(p Prim, side int, e *Event) *Resp {
	r.nativeSeen = true
	if side == 0 {
		r.regs[e.C] = append(r.regs[e.C], e)
	}
	return r.registerOn(p.Native(e.C), side, e)
}

// swapNative builds a NEW native interpreter holding every registration made so far for the client and installs it with
// SetInterpreter: to the specification nothing changes.
func (r *Runner) swapNative(p Prim, side int, c string) *Resp {
	return guarded(func() *Resp {
		n := interpreter.NewNativeInterpreter()
		for _, e := range r.regs[c] {
			r.registerOn(n, side, e)
		}
		p.SetNative(c, n)
		return NewResp()
	})
}

func (r *Runner) registerOn(n *interpreter.Native, side int, e *Event) *Resp {
	return guarded(func() *Resp {
		text := string(intsToBytes(e.Text))
		id := e.ID
		switch e.Op {
		case "AddMatcher":
			verdict := e.Verdict
			n.AddMatcher(e.T, interpreter.ExpressionType(e.MKind), text, func(item, attrs map[string]*mtypes.Item) bool {
				r.fired[side][id] = true
				return verdict
			})
		case "AddUpdater":
			attr, val, rem := e.Attr, e.Val, e.Rem
			n.AddUpdater(e.T, text, func(item, attrs map[string]*mtypes.Item) {
				r.fired[side][id] = true
				if val != nil {
					item[attr] = ToCore(*val)
				}
				if rem != "" {
					delete(item, rem)
				}
			})
		}
		return NewResp()
	})
}

// NewRunner builds a runner over the two real back ends.
func NewRunner() *Runner {
	r := &Runner{P1: &V1{}, P2: &V2{}}
	r.Reset()
	return r
}

// Reset starts a new trace with fresh clients.
func (r *Runner) Reset() {
	r.P1.Reset()
	r.P2.Reset()
	r.known = NewKnown()
	r.fail = map[string]string{}
	r.fired = [2]map[string]bool{{}, {}}
	r.nativeSeen = false
	r.regs = map[string][]*Event{}
}

// Step executes one operation on both back ends and returns the trace line.
func (r *Runner) Step(e *Event, observe bool) ([]byte, error) {
	r.Events++
	r.known.Learn(e)
	var r1, r2 *Resp
	if e.Op == "AddMatcher" || e.Op == "AddUpdater" {
		r1, r2 = r.register(r.P1, 0, e), r.register(r.P2, 1, e)
	} else if e.Op == "NativeSwap" {
		r.nativeSeen = true
		r1, r2 = r.swapNative(r.P1, 0, e.C), r.swapNative(r.P2, 1, e.C)
	} else {
		r.fired[0], r.fired[1] = map[string]bool{}, map[string]bool{}
		r1 = Exec(r.P1, e)
		r2 = Exec(r.P2, e)
		if r.nativeSeen {
			r1.Fired, r2.Fired = firedList(r.fired[0]), firedList(r.fired[1])
		}
	}
	// index names are learned from requests the clients accepted (an index the clients then fail to show or to
	// read is reported by the judge); a refused request teaches nothing
	if r1.Err == "none" || r2.Err == "none" {
		switch e.Op {
		case "AddIndex":
			r.known.idx[e.C+"/"+e.T] = addUniq(r.known.idx[e.C+"/"+e.T], e.IndexName())
		case "CreateTable":
			for _, g := range e.Gsis {
				r.known.idx[e.C+"/"+e.T] = addUniq(r.known.idx[e.C+"/"+e.T], g.Name)
			}
			for _, g := range e.Lsis {
				r.known.idx[e.C+"/"+e.T] = addUniq(r.known.idx[e.C+"/"+e.T], g.Name)
			}
		}
	}
	if e.Op == "DeleteIndex" && r1.Err == "none" && r2.Err == "none" {
		r.known.forgetIndex(e.C+"/"+e.T, e.IndexName())
	}
	if e.Op == "DeleteTable" && r1.Err == "none" && r2.Err == "none" {
		delete(r.known.idx, e.C+"/"+e.T)
	}
	if e.Op == "NativeActivate" {
		r.nativeSeen = true
	}
	if e.Op == "Fail" {
		m := e.Mode
		if m == "deactivate" {
			m = "none"
		}
		r.fail[e.C] = m
	}
	line := map[string]json.RawMessage{}
	for k, v := range e.raw {
		line[k] = v
	}
	put := func(k string, v interface{}) error {
		j, err := json.Marshal(v)
		if err != nil {
			return err
		}
		line[k] = j
		return nil
	}
	if err := put("r1", r1); err != nil {
		return nil, err
	}
	if err := put("r2", r2); err != nil {
		return nil, err
	}
	o1, o2 := Obs{Cs: []ClientObs{}}, Obs{Cs: []ClientObs{}}
	if observe {
		o1 = Observe(r.P1, r.known, r.fail)
		o2 = Observe(r.P2, r.known, r.fail)
	}
	if err := put("o1", o1); err != nil {
		return nil, err
	}
	if err := put("o2", o2); err != nil {
		return nil, err
	}
	return json.Marshal(line)
}
