package h

import (
	"errors"

	v2aws "github.com/aws/aws-sdk-go-v2/aws"
	v2ddb "github.com/aws/aws-sdk-go-v2/service/dynamodb"
	v2types "github.com/aws/aws-sdk-go-v2/service/dynamodb/types"
	"github.com/aws/aws-sdk-go/aws"
	v1ddb "github.com/aws/aws-sdk-go/service/dynamodb"
	mtypes "github.com/truora/minidyn/types"
)

// C14: the caller owns the structures it passes in and the structures it gets back.  After a call returned, the
// probes below overwrite EVERY mutable location of those structures (strings behind pointers, bytes, booleans, list and
// set elements, map entries) and then read the database again; the judge requires the stored state to be what the API
// calls alone made it.

func mutateV1(a *v1ddb.AttributeValue) {
	if a == nil {
		return
	}
	if a.S != nil {
		*a.S = "MUTATED"
	}
	if a.N != nil {
		*a.N = "424242"
	}
	for i := range a.B {
		a.B[i] ^= 0xFF
	}
	if a.BOOL != nil {
		*a.BOOL = !*a.BOOL
	}
	if a.NULL != nil {
		*a.NULL = !*a.NULL
	}
	for i, x := range a.L {
		mutateV1(x)
		a.L[i] = &v1ddb.AttributeValue{S: aws.String("REPLACED")}
	}
	for k, x := range a.M {
		mutateV1(x)
		delete(a.M, k)
	}
	if a.M != nil {
		a.M["INJECTED"] = &v1ddb.AttributeValue{S: aws.String("x")}
	}
	for i, x := range a.SS {
		if x != nil {
			*x = "MUTATED"
		}
		a.SS[i] = aws.String("REPLACED")
	}
	for i, x := range a.NS {
		if x != nil {
			*x = "424242"
		}
		a.NS[i] = aws.String("434343")
	}
	for i := range a.BS {
		for j := range a.BS[i] {
			a.BS[i][j] ^= 0xFF
		}
		a.BS[i] = []byte{7, 7}
	}
}

func mutateItemV1(m map[string]*v1ddb.AttributeValue) {
	for k, v := range m {
		mutateV1(v)
		delete(m, k)
	}
	if m != nil {
		m["INJECTED"] = &v1ddb.AttributeValue{S: aws.String("x")}
	}
}

func mutateCore(a *mtypes.Item) {
	if a == nil {
		return
	}
	if a.S != nil {
		*a.S = "MUTATED"
	}
	if a.N != nil {
		*a.N = "424242"
	}
	for i := range a.B {
		a.B[i] ^= 0xFF
	}
	if a.BOOL != nil {
		*a.BOOL = !*a.BOOL
	}
	if a.NULL != nil {
		*a.NULL = !*a.NULL
	}
	for i, x := range a.L {
		mutateCore(x)
		a.L[i] = &mtypes.Item{S: aws.String("REPLACED")}
	}
	for k, x := range a.M {
		mutateCore(x)
		delete(a.M, k)
	}
	for i, x := range a.SS {
		if x != nil {
			*x = "MUTATED"
		}
		a.SS[i] = aws.String("REPLACED")
	}
	for i, x := range a.NS {
		if x != nil {
			*x = "424242"
		}
		a.NS[i] = aws.String("434343")
	}
	for i := range a.BS {
		for j := range a.BS[i] {
			a.BS[i][j] ^= 0xFF
		}
	}
}

func mutateV2(a v2types.AttributeValue) {
	switch x := a.(type) {
	case *v2types.AttributeValueMemberS:
		x.Value = "MUTATED"
	case *v2types.AttributeValueMemberN:
		x.Value = "424242"
	case *v2types.AttributeValueMemberB:
		for i := range x.Value {
			x.Value[i] ^= 0xFF
		}
	case *v2types.AttributeValueMemberBOOL:
		x.Value = !x.Value
	case *v2types.AttributeValueMemberNULL:
		x.Value = !x.Value
	case *v2types.AttributeValueMemberL:
		for i, y := range x.Value {
			mutateV2(y)
			x.Value[i] = &v2types.AttributeValueMemberS{Value: "REPLACED"}
		}
	case *v2types.AttributeValueMemberM:
		for k, y := range x.Value {
			mutateV2(y)
			delete(x.Value, k)
		}
		if x.Value != nil {
			x.Value["INJECTED"] = &v2types.AttributeValueMemberS{Value: "x"}
		}
	case *v2types.AttributeValueMemberSS:
		for i := range x.Value {
			x.Value[i] = "MUTATED"
		}
	case *v2types.AttributeValueMemberNS:
		for i := range x.Value {
			x.Value[i] = "424242"
		}
	case *v2types.AttributeValueMemberBS:
		for i := range x.Value {
			for j := range x.Value[i] {
				x.Value[i][j] ^= 0xFF
			}
			x.Value[i] = []byte{7, 7}
		}
	}
}

func mutateItemV2(m map[string]v2types.AttributeValue) {
	for k, v := range m {
		mutateV2(v)
		delete(m, k)
	}
	if m != nil {
		m["INJECTED"] = &v2types.AttributeValueMemberS{Value: "x"}
	}
}

func keyOf(item Item) Item { return Item{"h": item["h"]} }

// AliasProbe (SDK v1).
func (b *V1) AliasProbe(c, t, kind string, item, item2 Item) *Resp {
	return b.guard(func() *Resp {
		cl := b.cs[c]
		r := NewResp()
		tn := aws.String(t)
		get := func() {
			out, err := cl.GetItem(&v1ddb.GetItemInput{TableName: tn, Key: ItemToV1(keyOf(item))})
			if err != nil {
				r.Err = b.errResp(err).Err
				return
			}
			r.Item = optOf(ItemFromV1(out.Item))
		}
		put := func(it Item) error {
			_, err := cl.PutItem(&v1ddb.PutItemInput{TableName: tn, Item: ItemToV1(it)})
			return err
		}
		fail := func(err error) *Resp { x := b.errResp(err); x.Msg = "probe setup: " + x.Msg; return x }
		switch kind {
		case "put-input":
			in := ItemToV1(item)
			if _, err := cl.PutItem(&v1ddb.PutItemInput{TableName: tn, Item: in}); err != nil {
				return fail(err)
			}
			mutateItemV1(in)
		case "batchwrite-input":
			in := ItemToV1(item)
			if _, err := cl.BatchWriteItem(&v1ddb.BatchWriteItemInput{RequestItems: map[string][]*v1ddb.WriteRequest{t: {{PutRequest: &v1ddb.PutRequest{Item: in}}}}}); err != nil {
				return fail(err)
			}
			mutateItemV1(in)
		case "get-output":
			if err := put(item); err != nil {
				return fail(err)
			}
			out, err := cl.GetItem(&v1ddb.GetItemInput{TableName: tn, Key: ItemToV1(keyOf(item))})
			if err != nil {
				return fail(err)
			}
			mutateItemV1(out.Item)
		case "scan-output", "query-output":
			if err := put(item); err != nil {
				return fail(err)
			}
			var items []map[string]*v1ddb.AttributeValue
			if kind == "scan-output" {
				out, err := cl.Scan(&v1ddb.ScanInput{TableName: tn})
				if err != nil {
					return fail(err)
				}
				items = out.Items
			} else {
				out, err := cl.Query(&v1ddb.QueryInput{TableName: tn, KeyConditionExpression: aws.String("h = :h"),
					ExpressionAttributeValues: map[string]*v1ddb.AttributeValue{":h": ToV1(item["h"])}, ScanIndexForward: aws.Bool(true)})
				if err != nil {
					return fail(err)
				}
				items = out.Items
			}
			for _, it := range items {
				mutateItemV1(it)
			}
		case "update-input":
			if err := put(keyOf(item)); err != nil {
				return fail(err)
			}
			vals := map[string]*v1ddb.AttributeValue{":v": ToV1(item["val"])}
			key := ItemToV1(keyOf(item))
			if _, err := cl.UpdateItem(&v1ddb.UpdateItemInput{TableName: tn, Key: key, UpdateExpression: aws.String("SET val = :v"), ExpressionAttributeValues: vals}); err != nil {
				return fail(err)
			}
			mutateItemV1(vals)
			mutateItemV1(key)
		case "upsert-input", "upsert-native":
			// UpdateItem on a key that holds no item: the new item is seeded from the request's Key structure
			if kind == "upsert-native" {
				cl.ActivateNativeInterpreter()
				cl.GetNativeInterpreter().AddUpdater(t, "SET val = :v", func(it, attrs map[string]*mtypes.Item) { it["val"] = attrs[":v"] })
			}
			vals := map[string]*v1ddb.AttributeValue{":v": ToV1(item["val"])}
			key := ItemToV1(keyOf(item))
			if _, err := cl.UpdateItem(&v1ddb.UpdateItemInput{TableName: tn, Key: key, UpdateExpression: aws.String("SET val = :v"), ExpressionAttributeValues: vals}); err != nil {
				return fail(err)
			}
			mutateItemV1(vals)
			mutateItemV1(key)
		case "update-output":
			if err := put(item); err != nil {
				return fail(err)
			}
			out, err := cl.UpdateItem(&v1ddb.UpdateItemInput{TableName: tn, Key: ItemToV1(keyOf(item)), UpdateExpression: aws.String("SET zother = :o"),
				ExpressionAttributeValues: map[string]*v1ddb.AttributeValue{":o": {N: aws.String("1")}}, ReturnValues: aws.String("ALL_NEW")})
			if err != nil {
				return fail(err)
			}
			mutateItemV1(out.Attributes)
		case "delete-output":
			if err := put(item); err != nil {
				return fail(err)
			}
			out, err := cl.DeleteItem(&v1ddb.DeleteItemInput{TableName: tn, Key: ItemToV1(keyOf(item)), ReturnValues: aws.String("ALL_OLD")})
			if err != nil {
				return fail(err)
			}
			r.Attrs = optOf(ItemFromV1(out.Attributes))
			mutateItemV1(out.Attributes)
		case "stale-get", "stale-scan":
			if err := put(item); err != nil {
				return fail(err)
			}
			var old map[string]*v1ddb.AttributeValue
			if kind == "stale-get" {
				out, err := cl.GetItem(&v1ddb.GetItemInput{TableName: tn, Key: ItemToV1(keyOf(item))})
				if err != nil {
					return fail(err)
				}
				old = out.Item
			} else {
				out, err := cl.Scan(&v1ddb.ScanInput{TableName: tn})
				if err != nil || len(out.Items) != 1 {
					return fail(errors.New("scan in probe"))
				}
				old = out.Items[0]
			}
			if _, err := cl.UpdateItem(&v1ddb.UpdateItemInput{TableName: tn, Key: ItemToV1(keyOf(item)), UpdateExpression: aws.String("SET val = :v"),
				ExpressionAttributeValues: map[string]*v1ddb.AttributeValue{":v": ToV1(item2["val"])}}); err != nil {
				return fail(err)
			}
			if err := put(item2); err != nil {
				return fail(err)
			}
			r.Attrs = optOf(ItemFromV1(old))
		case "ccf-item":
			if err := put(item); err != nil {
				return fail(err)
			}
			_, err := cl.UpdateItem(&v1ddb.UpdateItemInput{TableName: tn, Key: ItemToV1(keyOf(item)), UpdateExpression: aws.String("SET zother = :o"),
				ConditionExpression: aws.String("attribute_not_exists(h)"), ExpressionAttributeValues: map[string]*v1ddb.AttributeValue{":o": {N: aws.String("1")}}})
			var ccf *mtypes.ConditionalCheckFailedException
			if errors.As(err, &ccf) {
				for _, v := range ccf.Item {
					mutateCore(v)
				}
			}
		case "query-input-struct":
			if err := put(item); err != nil {
				return fail(err)
			}
			in := &v1ddb.QueryInput{TableName: tn, KeyConditionExpression: aws.String("h = :h"), ExpressionAttributeValues: map[string]*v1ddb.AttributeValue{":h": ToV1(item["h"])}}
			if _, err := cl.Query(in); err != nil {
				return fail(err)
			}
			if in.ScanIndexForward == nil && in.Limit == nil && in.IndexName == nil {
				r.Count = 1
			}
		}
		get()
		return r
	})
}

// AliasProbe (SDK v2).
func (b *V2) AliasProbe(c, t, kind string, item, item2 Item) *Resp {
	return b.guard(func() *Resp {
		cl := b.cs[c]
		r := NewResp()
		tn := v2aws.String(t)
		get := func() {
			out, err := cl.GetItem(bg, &v2ddb.GetItemInput{TableName: tn, Key: ItemToV2(keyOf(item))})
			if err != nil {
				r.Err = b.errResp(err).Err
				return
			}
			r.Item = optOf(ItemFromV2(out.Item))
		}
		put := func(it Item) error {
			_, err := cl.PutItem(bg, &v2ddb.PutItemInput{TableName: tn, Item: ItemToV2(it)})
			return err
		}
		fail := func(err error) *Resp { x := b.errResp(err); x.Msg = "probe setup: " + x.Msg; return x }
		switch kind {
		case "put-input":
			in := ItemToV2(item)
			if _, err := cl.PutItem(bg, &v2ddb.PutItemInput{TableName: tn, Item: in}); err != nil {
				return fail(err)
			}
			mutateItemV2(in)
		case "batchwrite-input":
			in := ItemToV2(item)
			if _, err := cl.BatchWriteItem(bg, &v2ddb.BatchWriteItemInput{RequestItems: map[string][]v2types.WriteRequest{t: {{PutRequest: &v2types.PutRequest{Item: in}}}}}); err != nil {
				return fail(err)
			}
			mutateItemV2(in)
		case "get-output":
			if err := put(item); err != nil {
				return fail(err)
			}
			out, err := cl.GetItem(bg, &v2ddb.GetItemInput{TableName: tn, Key: ItemToV2(keyOf(item))})
			if err != nil {
				return fail(err)
			}
			mutateItemV2(out.Item)
		case "scan-output", "query-output":
			if err := put(item); err != nil {
				return fail(err)
			}
			var items []map[string]v2types.AttributeValue
			if kind == "scan-output" {
				out, err := cl.Scan(bg, &v2ddb.ScanInput{TableName: tn})
				if err != nil {
					return fail(err)
				}
				items = out.Items
			} else {
				out, err := cl.Query(bg, &v2ddb.QueryInput{TableName: tn, KeyConditionExpression: v2aws.String("h = :h"),
					ExpressionAttributeValues: map[string]v2types.AttributeValue{":h": ToV2(item["h"])}})
				if err != nil {
					return fail(err)
				}
				items = out.Items
			}
			for _, it := range items {
				mutateItemV2(it)
			}
		case "update-input":
			if err := put(keyOf(item)); err != nil {
				return fail(err)
			}
			vals := map[string]v2types.AttributeValue{":v": ToV2(item["val"])}
			key := ItemToV2(keyOf(item))
			if _, err := cl.UpdateItem(bg, &v2ddb.UpdateItemInput{TableName: tn, Key: key, UpdateExpression: v2aws.String("SET val = :v"), ExpressionAttributeValues: vals}); err != nil {
				return fail(err)
			}
			mutateItemV2(vals)
			mutateItemV2(key)
		case "upsert-input", "upsert-native":
			if kind == "upsert-native" {
				cl.ActivateNativeInterpreter()
				cl.GetNativeInterpreter().AddUpdater(t, "SET val = :v", func(it, attrs map[string]*mtypes.Item) { it["val"] = attrs[":v"] })
			}
			vals := map[string]v2types.AttributeValue{":v": ToV2(item["val"])}
			key := ItemToV2(keyOf(item))
			if _, err := cl.UpdateItem(bg, &v2ddb.UpdateItemInput{TableName: tn, Key: key, UpdateExpression: v2aws.String("SET val = :v"), ExpressionAttributeValues: vals}); err != nil {
				return fail(err)
			}
			mutateItemV2(vals)
			mutateItemV2(key)
		case "update-output":
			if err := put(item); err != nil {
				return fail(err)
			}
			out, err := cl.UpdateItem(bg, &v2ddb.UpdateItemInput{TableName: tn, Key: ItemToV2(keyOf(item)), UpdateExpression: v2aws.String("SET zother = :o"),
				ExpressionAttributeValues: map[string]v2types.AttributeValue{":o": &v2types.AttributeValueMemberN{Value: "1"}}, ReturnValues: v2types.ReturnValueAllNew})
			if err != nil {
				return fail(err)
			}
			mutateItemV2(out.Attributes)
		case "delete-output":
			if err := put(item); err != nil {
				return fail(err)
			}
			out, err := cl.DeleteItem(bg, &v2ddb.DeleteItemInput{TableName: tn, Key: ItemToV2(keyOf(item)), ReturnValues: v2types.ReturnValueAllOld})
			if err != nil {
				return fail(err)
			}
			r.Attrs = optOf(ItemFromV2(out.Attributes))
			mutateItemV2(out.Attributes)
		case "stale-get", "stale-scan":
			if err := put(item); err != nil {
				return fail(err)
			}
			var old map[string]v2types.AttributeValue
			if kind == "stale-get" {
				out, err := cl.GetItem(bg, &v2ddb.GetItemInput{TableName: tn, Key: ItemToV2(keyOf(item))})
				if err != nil {
					return fail(err)
				}
				old = out.Item
			} else {
				out, err := cl.Scan(bg, &v2ddb.ScanInput{TableName: tn})
				if err != nil || len(out.Items) != 1 {
					return fail(errors.New("scan in probe"))
				}
				old = out.Items[0]
			}
			if _, err := cl.UpdateItem(bg, &v2ddb.UpdateItemInput{TableName: tn, Key: ItemToV2(keyOf(item)), UpdateExpression: v2aws.String("SET val = :v"),
				ExpressionAttributeValues: map[string]v2types.AttributeValue{":v": ToV2(item2["val"])}}); err != nil {
				return fail(err)
			}
			if err := put(item2); err != nil {
				return fail(err)
			}
			r.Attrs = optOf(ItemFromV2(old))
		case "ccf-item":
			if err := put(item); err != nil {
				return fail(err)
			}
			_, err := cl.UpdateItem(bg, &v2ddb.UpdateItemInput{TableName: tn, Key: ItemToV2(keyOf(item)), UpdateExpression: v2aws.String("SET zother = :o"),
				ConditionExpression: v2aws.String("attribute_not_exists(h)"), ExpressionAttributeValues: map[string]v2types.AttributeValue{":o": &v2types.AttributeValueMemberN{Value: "1"}},
				ReturnValuesOnConditionCheckFailure: v2types.ReturnValuesOnConditionCheckFailureAllOld})
			var ccf *v2types.ConditionalCheckFailedException
			if errors.As(err, &ccf) {
				mutateItemV2(ccf.Item)
			}
		case "query-input-struct":
			if err := put(item); err != nil {
				return fail(err)
			}
			in := &v2ddb.QueryInput{TableName: tn, KeyConditionExpression: v2aws.String("h = :h"), ExpressionAttributeValues: map[string]v2types.AttributeValue{":h": ToV2(item["h"])}}
			if _, err := cl.Query(bg, in); err != nil {
				return fail(err)
			}
			if in.ScanIndexForward == nil && in.Limit == nil && in.IndexName == nil {
				r.Count = 1
			}
		}
		get()
		return r
	})
}
