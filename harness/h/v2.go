package h

import (
	"context"
	"errors"
	"github.com/truora/minidyn/interpreter"
	"sort"
	"strings"

	"github.com/aws/aws-sdk-go-v2/aws"
	"github.com/aws/aws-sdk-go-v2/service/dynamodb"
	"github.com/aws/aws-sdk-go-v2/service/dynamodb/types"
	"github.com/aws/smithy-go"
	v2c "github.com/truora/minidyn/aws-v2/client"
)

// V2 drives aws-v2/client.
type V2 struct {
	hangState
	cs map[string]*v2c.Client
}

var bg = context.Background()

// SetContexts replaces the contexts the two back ends pass to the clients (the concurrency recorder uses a cancellable one for one call).
func SetContexts(ctx context.Context) { bg, bgv1 = ctx, ctx }

// Name of the back end.
func (b *V2) Name() string { return "v2" }

// Reset creates fresh clients.
func (b *V2) Reset() {
	b.resetHang()
	b.cs = map[string]*v2c.Client{}
	for _, id := range ClientIDs {
		b.cs[id] = v2c.NewClient()
	}
}

// Client gives access to the real client (interpreter registration, hooks).
func (b *V2) Client(c string) *v2c.Client { return b.cs[c] }

func (b *V2) errResp(err error) *Resp {
	r := NewResp()
	if err == nil {
		return r
	}
	r.Msg = err.Error()
	if cls, ok := classifyCommon(err, v2c.ErrForcedFailure); ok {
		r.Err = cls
		return r
	}
	var ccf *types.ConditionalCheckFailedException
	if errors.As(err, &ccf) {
		r.Err = "ccf"
		r.CcfItem = optOf(ItemFromV2(ccf.Item))
		return r
	}
	var api smithy.APIError
	if errors.As(err, &api) {
		r.Err = classOfCode(api.ErrorCode())
		return r
	}
	var cd coder
	if errors.As(err, &cd) {
		r.Err = classOfCode(cd.Code())
		return r
	}
	r.Err = "other"
	return r
}

func v2KeySchema(hash string, rng string) []types.KeySchemaElement {
	ks := []types.KeySchemaElement{{AttributeName: aws.String(hash), KeyType: types.KeyTypeHash}}
	if rng != "" {
		ks = append(ks, types.KeySchemaElement{AttributeName: aws.String(rng), KeyType: types.KeyTypeRange})
	}
	return ks
}

func v2Desc(td *types.TableDescription) Desc {
	d := Desc{Gsis: []IdxDesc{}, Lsis: []IdxDesc{}}
	if td == nil {
		return d
	}
	if td.ItemCount != nil {
		d.Count = int(*td.ItemCount)
	}
	ksOf := func(ks []types.KeySchemaElement) (string, string) {
		h, r := "", ""
		for _, k := range ks {
			if k.KeyType == types.KeyTypeHash {
				h = aws.ToString(k.AttributeName)
			} else {
				r = aws.ToString(k.AttributeName)
			}
		}
		return h, r
	}
	d.Hash, d.Range = ksOf(td.KeySchema)
	for _, g := range td.GlobalSecondaryIndexes {
		x := IdxDesc{Name: aws.ToString(g.IndexName)}
		x.Hash, x.Range = ksOf(g.KeySchema)
		if g.ItemCount != nil {
			x.Count = OptInt{Some: true, N: int(*g.ItemCount)}
		}
		if g.Projection != nil {
			x.Proj = string(g.Projection.ProjectionType)
		}
		d.Gsis = append(d.Gsis, x)
	}
	for _, g := range td.LocalSecondaryIndexes {
		x := IdxDesc{Name: aws.ToString(g.IndexName)}
		x.Hash, x.Range = ksOf(g.KeySchema)
		if g.ItemCount != nil {
			x.Count = OptInt{Some: true, N: int(*g.ItemCount)}
		}
		if g.Projection != nil {
			x.Proj = string(g.Projection.ProjectionType)
		}
		d.Lsis = append(d.Lsis, x)
	}
	sort.Slice(d.Gsis, func(i, j int) bool { return d.Gsis[i].Name < d.Gsis[j].Name })
	sort.Slice(d.Lsis, func(i, j int) bool { return d.Lsis[i].Name < d.Lsis[j].Name })
	return d
}

// AddTable uses the library's helper.
func (b *V2) AddTable(c, t, hash, rng string) *Resp {
	return b.guard(func() *Resp { return b.errResp(v2c.AddTable(bg, b.cs[c], t, hash, rng)) })
}

// AddIndex uses the library's helper.
func (b *V2) AddIndex(c, t, index, hash, rng string) *Resp {
	return b.guard(func() *Resp { return b.errResp(v2c.AddIndex(bg, b.cs[c], t, index, hash, rng)) })
}

// DeleteIndex issues UpdateTable with a Delete action.
func (b *V2) DeleteIndex(c, t, index string) *Resp {
	return b.guard(func() *Resp {
		_, err := b.cs[c].UpdateTable(bg, &dynamodb.UpdateTableInput{TableName: aws.String(t),
			GlobalSecondaryIndexUpdates: []types.GlobalSecondaryIndexUpdate{{Delete: &types.DeleteGlobalSecondaryIndexAction{IndexName: aws.String(index)}}}})
		return b.errResp(err)
	})
}

// CreateTable issues the full request.
func (b *V2) CreateTable(c string, ev *Event) *Resp {
	return b.guard(func() *Resp {
		in := &dynamodb.CreateTableInput{TableName: aws.String(ev.T), BillingMode: types.BillingMode(ev.Billing)}
		for _, a := range ev.Attrs {
			in.AttributeDefinitions = append(in.AttributeDefinitions, types.AttributeDefinition{AttributeName: aws.String(a.N), AttributeType: types.ScalarAttributeType(a.Ty)})
		}
		rng := ""
		if rd := ev.RangeDef(); rd.Some {
			rng = rd.N
		}
		in.KeySchema = v2KeySchema(ev.HashDef().N, rng)
		thr := &types.ProvisionedThroughput{ReadCapacityUnits: aws.Int64(5), WriteCapacityUnits: aws.Int64(5)}
		if ev.Thr {
			in.ProvisionedThroughput = thr
		}
		for _, g := range ev.Gsis {
			r := ""
			if g.Range.Some {
				r = g.Range.N
			}
			x := types.GlobalSecondaryIndex{IndexName: aws.String(g.Name), KeySchema: v2KeySchema(g.Hash, r),
				Projection: &types.Projection{ProjectionType: types.ProjectionType(g.Proj)}}
			if g.Thr {
				x.ProvisionedThroughput = thr
			}
			in.GlobalSecondaryIndexes = append(in.GlobalSecondaryIndexes, x)
		}
		for _, g := range ev.Lsis {
			r := ""
			if g.Range.Some {
				r = g.Range.N
			}
			in.LocalSecondaryIndexes = append(in.LocalSecondaryIndexes, types.LocalSecondaryIndex{IndexName: aws.String(g.Name),
				KeySchema: v2KeySchema(g.Hash, r), Projection: &types.Projection{ProjectionType: types.ProjectionType(g.Proj)}})
		}
		out, err := b.cs[c].CreateTable(bg, in)
		r := b.errResp(err)
		if err == nil && out != nil {
			r.Desc = v2Desc(out.TableDescription)
		}
		return r
	})
}

// DeleteTable deletes a table.
func (b *V2) DeleteTable(c, t string) *Resp {
	return b.guard(func() *Resp {
		_, err := b.cs[c].DeleteTable(bg, &dynamodb.DeleteTableInput{TableName: aws.String(t)})
		return b.errResp(err)
	})
}

// Describe describes a table.
func (b *V2) Describe(c, t string) *Resp {
	return b.guard(func() *Resp {
		out, err := b.cs[c].DescribeTable(bg, &dynamodb.DescribeTableInput{TableName: aws.String(t)})
		r := b.errResp(err)
		if err == nil && out != nil {
			r.Desc = v2Desc(out.Table)
		}
		return r
	})
}

// Clear uses the library's helper.
func (b *V2) Clear(c, t string) *Resp {
	return b.guard(func() *Resp { return b.errResp(v2c.ClearTable(b.cs[c], t)) })
}

func v2Names(m map[string]string) map[string]string {
	if len(m) == 0 {
		return nil
	}
	out := map[string]string{}
	for k, v := range m {
		out[k] = v
	}
	return out
}

func v2Values(it Item) map[string]types.AttributeValue {
	if len(it) == 0 {
		return nil
	}
	return ItemToV2(it)
}

// Put issues PutItem.
func (b *V2) Put(c, t string, item Item, w WriteArgs) *Resp {
	return b.guard(func() *Resp {
		in := &dynamodb.PutItemInput{TableName: aws.String(t), Item: ItemToV2(item), ConditionExpression: w.Cond,
			ExpressionAttributeNames: v2Names(w.Names), ExpressionAttributeValues: v2Values(w.Values)}
		if w.Rvf {
			in.ReturnValuesOnConditionCheckFailure = types.ReturnValuesOnConditionCheckFailureAllOld
		}
		out, err := b.cs[c].PutItem(bg, in)
		r := b.errResp(err)
		if err == nil && out != nil {
			r.Attrs = optOf(ItemFromV2(out.Attributes))
		}
		return r
	})
}

// Get issues GetItem.
func (b *V2) Get(c, t string, key Item) *Resp {
	return b.guard(func() *Resp {
		out, err := b.cs[c].GetItem(bg, &dynamodb.GetItemInput{TableName: aws.String(t), Key: ItemToV2(key)})
		r := b.errResp(err)
		if err == nil && out != nil {
			r.Item = optOf(ItemFromV2(out.Item))
		}
		return r
	})
}

// GetProj issues GetItem with a ProjectionExpression.
func (b *V2) GetProj(c, t string, key Item, proj []string) *Resp {
	return b.guard(func() *Resp {
		out, err := b.cs[c].GetItem(bg, &dynamodb.GetItemInput{TableName: aws.String(t), Key: ItemToV2(key), ProjectionExpression: aws.String(strings.Join(proj, ", "))})
		r := b.errResp(err)
		if err == nil && out != nil {
			r.Item = optOf(ItemFromV2(out.Item))
		}
		return r
	})
}

// Update issues UpdateItem with ReturnValues = ALL_NEW.
func (b *V2) Update(c, t string, key Item, upd string, w WriteArgs) *Resp {
	return b.guard(func() *Resp {
		in := &dynamodb.UpdateItemInput{TableName: aws.String(t), Key: ItemToV2(key), UpdateExpression: aws.String(upd),
			ConditionExpression: w.Cond, ExpressionAttributeNames: v2Names(w.Names), ExpressionAttributeValues: v2Values(w.Values),
			ReturnValues: types.ReturnValueAllNew}
		if w.Rvf {
			in.ReturnValuesOnConditionCheckFailure = types.ReturnValuesOnConditionCheckFailureAllOld
		}
		out, err := b.cs[c].UpdateItem(bg, in)
		r := b.errResp(err)
		if err == nil && out != nil {
			r.Attrs = optOf(ItemFromV2(out.Attributes))
		}
		return r
	})
}

// Delete issues DeleteItem.
func (b *V2) Delete(c, t string, key Item, w WriteArgs) *Resp {
	return b.guard(func() *Resp {
		in := &dynamodb.DeleteItemInput{TableName: aws.String(t), Key: ItemToV2(key), ConditionExpression: w.Cond,
			ExpressionAttributeNames: v2Names(w.Names), ExpressionAttributeValues: v2Values(w.Values)}
		if w.Retold {
			in.ReturnValues = types.ReturnValueAllOld
		}
		if w.RetVals != "" {
			in.ReturnValues = types.ReturnValue(w.RetVals)
		}
		if w.Rvf {
			in.ReturnValuesOnConditionCheckFailure = types.ReturnValuesOnConditionCheckFailureAllOld
		}
		out, err := b.cs[c].DeleteItem(bg, in)
		r := b.errResp(err)
		if err == nil && out != nil {
			r.Attrs = optOf(ItemFromV2(out.Attributes))
		}
		return r
	})
}

func v2Items(in []map[string]types.AttributeValue) []Item {
	out := make([]Item, len(in))
	for i, m := range in {
		out[i] = ItemFromV2(m)
	}
	return out
}

// Read issues Query or Scan.
func (b *V2) Read(c string, q *ReadArgs) *Resp {
	return b.guard(func() *Resp {
		var lim *int32
		if q.Limit != nil {
			lim = aws.Int32(int32(*q.Limit))
		}
		var esk map[string]types.AttributeValue
		if q.Esk != nil { // an empty start key is passed as an empty, non-nil map
			esk = ItemToV2(q.Esk)
		}
		if q.Kind == "query" {
			out, err := b.cs[c].Query(bg, &dynamodb.QueryInput{TableName: aws.String(q.T), IndexName: q.Index,
				KeyConditionExpression: aws.String(q.Kc), FilterExpression: q.Filter, ProjectionExpression: q.Proj, ExpressionAttributeNames: v2Names(q.Names),
				ExpressionAttributeValues: v2Values(q.Values), ScanIndexForward: q.Fwd, Limit: lim, ExclusiveStartKey: esk})
			r := b.errResp(err)
			if err == nil && out != nil {
				r.Items = v2Items(out.Items)
				r.Count = int(out.Count)
				r.Lek = optKeyOf(ItemFromV2(out.LastEvaluatedKey))
			}
			return r
		}
		out, err := b.cs[c].Scan(bg, &dynamodb.ScanInput{TableName: aws.String(q.T), IndexName: q.Index,
			FilterExpression: q.Filter, ProjectionExpression: q.Proj, ExpressionAttributeNames: v2Names(q.Names),
			ExpressionAttributeValues: v2Values(q.Values), Limit: lim, ExclusiveStartKey: esk})
		r := b.errResp(err)
		if err == nil && out != nil {
			r.Items = v2Items(out.Items)
			r.Count = int(out.Count)
			r.Lek = optKeyOf(ItemFromV2(out.LastEvaluatedKey))
		}
		return r
	})
}

// BatchWrite issues BatchWriteItem; requests keep their order inside each table.
func (b *V2) BatchWrite(c string, reqs []WriteReq) *Resp {
	return b.guard(func() *Resp {
		in := &dynamodb.BatchWriteItemInput{RequestItems: map[string][]types.WriteRequest{}}
		for _, rq := range reqs {
			wr := types.WriteRequest{}
			if rq.Put.Some {
				wr.PutRequest = &types.PutRequest{Item: ItemToV2(rq.Put.I)}
			}
			if rq.Del.Some {
				wr.DeleteRequest = &types.DeleteRequest{Key: ItemToV2(rq.Del.K)}
			}
			in.RequestItems[rq.T] = append(in.RequestItems[rq.T], wr)
		}
		out, err := b.cs[c].BatchWriteItem(bg, in)
		r := b.errResp(err)
		if err == nil && out != nil {
			tables := make([]string, 0, len(out.UnprocessedItems))
			for t := range out.UnprocessedItems {
				tables = append(tables, t)
			}
			sort.Strings(tables)
			for _, t := range tables {
				for _, wr := range out.UnprocessedItems[t] {
					x := WriteReq{T: t, Put: OptItem{I: Item{}}, Del: OptKey{K: Item{}}}
					if wr.PutRequest != nil {
						x.Put = OptItem{Some: true, I: ItemFromV2(wr.PutRequest.Item)}
					}
					if wr.DeleteRequest != nil {
						x.Del = OptKey{Some: true, K: ItemFromV2(wr.DeleteRequest.Key)}
					}
					r.Unproc = append(r.Unproc, x)
				}
			}
		}
		return r
	})
}

// BatchGet issues BatchGetItem.
func (b *V2) BatchGet(c string, reqs []GetReq) *Resp {
	return b.guard(func() *Resp {
		in := &dynamodb.BatchGetItemInput{RequestItems: map[string]types.KeysAndAttributes{}}
		for _, rq := range reqs {
			ka := in.RequestItems[rq.T]
			for _, k := range rq.Keys {
				ka.Keys = append(ka.Keys, ItemToV2(k))
			}
			in.RequestItems[rq.T] = ka
		}
		out, err := b.cs[c].BatchGetItem(bg, in)
		r := b.errResp(err)
		if err == nil && out != nil {
			tables := make([]string, 0)
			for t := range out.Responses {
				tables = append(tables, t)
			}
			sort.Strings(tables)
			for _, t := range tables {
				r.Responses = append(r.Responses, TableItems{T: t, Items: v2Items(out.Responses[t])})
			}
			tables = tables[:0]
			for t := range out.UnprocessedKeys {
				tables = append(tables, t)
			}
			sort.Strings(tables)
			for _, t := range tables {
				r.UnprocKeys = append(r.UnprocKeys, TableKeys{T: t, Keys: v2Items(out.UnprocessedKeys[t].Keys)})
			}
		}
		return r
	})
}

// Transact issues an empty TransactWriteItems.
func (b *V2) Transact(c string) *Resp {
	return b.guard(func() *Resp {
		_, err := b.cs[c].TransactWriteItems(bg, &dynamodb.TransactWriteItemsInput{})
		return b.errResp(err)
	})
}

// Fail switches the emulated failure mode.
func (b *V2) Fail(c, mode string) *Resp {
	return b.guard(func() *Resp {
		switch mode {
		case "none":
			v2c.EmulateFailure(b.cs[c], v2c.FailureConditionNone)
		case "internal":
			v2c.EmulateFailure(b.cs[c], v2c.FailureConditionInternalServerError)
		case "deprecated":
			v2c.ActiveForceFailure(b.cs[c])
		case "deactivate":
			v2c.DeactiveForceFailure(b.cs[c])
		}
		return NewResp()
	})
}

// Native returns the client's native interpreter (registrations go through it, as in the library's own tests).
func (b *V2) Native(c string) *interpreter.Native { return b.cs[c].GetNativeInterpreter() }

// SetNative installs another native interpreter instance.
func (b *V2) SetNative(c string, n *interpreter.Native) { b.cs[c].SetInterpreter(n) }

// ActivateNative switches the client to the native interpreter.
func (b *V2) ActivateNative(c string) { b.cs[c].ActivateNativeInterpreter() }
