package h

import (
	"errors"
	"fmt"
	"regexp"
	"runtime"
	"strings"
	"sync/atomic"
	"time"

	"github.com/truora/minidyn/interpreter"
)

// ReadArgs is a Query or Scan request.
type ReadArgs struct {
	T      string
	Index  *string
	Kind   string // "query" | "scan"
	Kc     string
	Filter *string
	Names  map[string]string
	Values Item
	Fwd    *bool
	Limit  *int
	Esk    Item
	Proj   *string // ProjectionExpression
}

// WriteArgs carries the optional parts of a single-item write.
type WriteArgs struct {
	Cond    *string
	Names   map[string]string
	Values  Item
	Rvf     bool   // ReturnValuesOnConditionCheckFailure = ALL_OLD (SDK v2 only)
	Retold  bool   // ReturnValues = ALL_OLD (DeleteItem)
	RetVals string // when set: the ReturnValues field of DeleteItem verbatim (legal or not)
}

// Prim is the set of primitive calls both SDK back ends implement.
type Prim interface {
	Name() string
	Reset()
	AddTable(c, t, hash, rng string) *Resp
	CreateTable(c string, ev *Event) *Resp
	AddIndex(c, t, index, hash, rng string) *Resp
	DeleteIndex(c, t, index string) *Resp
	DeleteTable(c, t string) *Resp
	Describe(c, t string) *Resp
	Clear(c, t string) *Resp
	Put(c, t string, item Item, w WriteArgs) *Resp
	Get(c, t string, key Item) *Resp
	// GetProj issues GetItem with a ProjectionExpression naming the given top-level attributes.
	GetProj(c, t string, key Item, proj []string) *Resp
	Update(c, t string, key Item, upd string, w WriteArgs) *Resp
	Delete(c, t string, key Item, w WriteArgs) *Resp
	Read(c string, q *ReadArgs) *Resp
	BatchWrite(c string, reqs []WriteReq) *Resp
	BatchGet(c string, reqs []GetReq) *Resp
	Transact(c string) *Resp
	Fail(c, mode string) *Resp
	AliasProbe(c, t, kind string, item, item2 Item) *Resp
	Native(c string) *interpreter.Native
	ActivateNative(c string)
	// SetNative installs another native interpreter instance with SetInterpreter.
	SetNative(c string, n *interpreter.Native)
}

// ClientIDs are the client instances every back end keeps.
var ClientIDs = []string{"c1", "c2"}

// HangTimeout is how long one call of the real client may take before the harness LOOKS at it. Calls take microseconds.
var HangTimeout = 20 * time.Second

// HangGiveUp bounds the waiting for a call that is slow but not blocked (a starved machine); beyond it the call is reported as crashed.
var HangGiveUp = 15 * time.Minute

// hangState is embedded in a back end. hung is set when a call did not return: the goroutine (and any lock it holds) is lost, so the
// remaining calls of the trace to THAT back end are answered "crash" at once instead of waiting each; Reset (new clients) clears it.
type hangState struct{ hung atomic.Bool }

func (h *hangState) resetHang() { h.hung.Store(false) }

var goroutineLine = regexp.MustCompile(`(?m)^goroutine (\d+) \[([^\]]*)\]:`)

// goroutineID of the caller, read from its own stack header.
func goroutineID() string {
	buf := make([]byte, 64)
	buf = buf[:runtime.Stack(buf, false)]
	if m := goroutineLine.FindSubmatch(buf); m != nil {
		return string(m[1])
	}
	return ""
}

// goroutineState returns the scheduler state of a goroutine ("running", "runnable", "sync.Mutex.Lock", "chan receive", ...), "" if gone.
func goroutineState(id string) string {
	buf := make([]byte, 1<<20)
	buf = buf[:runtime.Stack(buf, true)]
	for _, m := range goroutineLine.FindAllSubmatch(buf, -1) {
		if string(m[1]) == id {
			return string(m[2])
		}
	}
	return ""
}

// guard runs one call, turning a panic into a response: the library's documented panic (a panic whose
// value wraps the interpreter's syntax / unsupported errors, core/table.go interpreterMatch) is class
// "panic_syntax"; any other panic is "crash". A call that has not returned after HangTimeout is examined: if its goroutine is
// BLOCKED (on a mutex, a channel, a condition ...) it hangs and is "crash"; if it is running or runnable the machine is merely
// slow and the harness keeps waiting (a loaded machine must never look like a deadlock).
func (h *hangState) guard(f func() *Resp) *Resp {
	if h.hung.Load() {
		r := NewResp()
		r.Err = "crash"
		r.Msg = "not attempted: an earlier call of this trace never returned"
		return r
	}
	done := make(chan *Resp, 1)
	gid := make(chan string, 1)
	go func() { gid <- goroutineID(); done <- guarded(f) }()
	id := <-gid
	start := time.Now()
	for {
		select {
		case r := <-done:
			return r
		case <-time.After(HangTimeout):
			st := goroutineState(id)
			blocked := st != "" && !strings.HasPrefix(st, "running") && !strings.HasPrefix(st, "runnable") && !strings.HasPrefix(st, "GC") &&
				!strings.HasPrefix(st, "sleep") && !strings.HasPrefix(st, "syscall")
			if blocked || time.Since(start) > HangGiveUp {
				h.hung.Store(true)
				r := NewResp()
				r.Err = "crash"
				r.Msg = fmt.Sprintf("the call did not return within %s; its goroutine is [%s]", time.Since(start).Round(time.Second), st)
				return r
			}
		}
	}
}

func guarded(f func() *Resp) (r *Resp) {
	defer func() {
		if p := recover(); p != nil {
			r = NewResp()
			r.Err = "crash"
			r.Msg = fmt.Sprint(p)
			if e, ok := p.(error); ok {
				if errors.Is(e, interpreter.ErrSyntaxError) || errors.Is(e, interpreter.ErrUnsupportedFeature) {
					r.Err = "panic_syntax"
				}
			}
		}
	}()
	return f()
}

type coder interface{ Code() string }

func classOfCode(code string) string {
	switch code {
	case "ConditionalCheckFailedException":
		return "ccf"
	case "ResourceNotFoundException":
		return "rnf"
	case "ResourceInUseException":
		return "riu"
	case "ValidationException", "InvalidParameter", "ParamRequiredError", "ParamMinLenError", "ParamMinValueError":
		return "validation"
	case "InternalServerError":
		return "internal"
	}
	return "other"
}

// classifyCommon handles the error values both SDK adapters can return.
func classifyCommon(err error, forced error) (string, bool) {
	if err == nil {
		return "none", true
	}
	if forced != nil && errors.Is(err, forced) {
		return "forced", true
	}
	if errors.Is(err, interpreter.ErrSyntaxError) {
		return "syntax", true
	}
	if errors.Is(err, interpreter.ErrUnsupportedFeature) {
		return "unsupported", true
	}
	return "", false
}
