package h

import (
	"encoding/json"
)

// Ast is an expression tree exactly as Expr.tla defines it.
type Ast map[string]interface{}

// OptAst is [some, ast].
type OptAst struct {
	Some bool `json:"some"`
	Ast  Ast  `json:"ast"`
}

// OptName is [some, n].
type OptName struct {
	Some bool   `json:"some"`
	N    string `json:"n"`
}

// OptInt is [some, n].
type OptInt struct {
	Some bool `json:"some"`
	N    int  `json:"n"`
}

// OptItem is [some, i].
type OptItem struct {
	Some bool `json:"some"`
	I    Item `json:"i"`
}

// OptKey is [some, k].
type OptKey struct {
	Some bool `json:"some"`
	K    Item `json:"k"`
}

// KeyDef is [n, ty] / [some, n, ty].
type KeyDef struct {
	Some bool   `json:"some"`
	N    string `json:"n"`
	Ty   string `json:"ty"`
}

// IndexDef describes a secondary index in CreateTable.
type IndexDef struct {
	Name  string  `json:"name"`
	Hash  string  `json:"hash"`
	Range OptName `json:"range"`
	Proj  string  `json:"proj"`
	Thr   bool    `json:"thr"`
}

// WriteReq is one request of a BatchWrite.
type WriteReq struct {
	T   string  `json:"t"`
	Put OptItem `json:"put"`
	Del OptKey  `json:"del"`
}

// GetReq is the keys of one table in a BatchGet.
type GetReq struct {
	T    string `json:"t"`
	Keys []Item `json:"keys"`
}

// Event is one abstract operation (the record `e` of MiniDyn!Plan); only the fields of its op are set.
type Event struct {
	Op string `json:"op"`
	C  string `json:"c"`
	T  string `json:"t"`

	// CreateTable / AddTable / AddIndex / DeleteIndex
	Hash    json.RawMessage `json:"hash"`
	Range   json.RawMessage `json:"range"`
	Billing string          `json:"billing"`
	Thr     bool            `json:"thr"`
	Attrs   []KeyDef        `json:"attrs"`
	Gsis    []IndexDef      `json:"gsis"`
	Lsis    []IndexDef      `json:"lsis"`
	IndexN  json.RawMessage `json:"index"`

	// data
	Item    Item            `json:"item"`
	Item2   Item            `json:"item2"`
	Key     Item            `json:"key"`
	Proj    []string        `json:"proj"`
	Cond    OptAst          `json:"cond"`
	Upd     Ast             `json:"upd"`
	Names   StrMap          `json:"names"`
	Values  Item            `json:"values"`
	Rvf     bool            `json:"rvf"`
	Retold  bool            `json:"retold"`
	RetVals string          `json:"retvals"`
	Kind    string          `json:"kind"`
	Kc      Ast             `json:"kc"`
	Filter  OptAst          `json:"filter"`
	Fwd     bool            `json:"fwd"`
	Limit   OptInt          `json:"limit"`
	Esk     OptKey          `json:"esk"`
	Del     bool            `json:"del"`
	Mode    string          `json:"mode"`
	MKind   string          `json:"mkind"`
	Text    []int           `json:"text"`
	ID      string          `json:"id"`
	Verdict bool            `json:"verdict"`
	Attr    string          `json:"attr"`
	Rem     string          `json:"rem"`
	Val     *Value          `json:"val"`
	WReqs   []WriteReq      `json:"-"`
	GReqs   []GetReq        `json:"-"`
	Reqs    json.RawMessage `json:"reqs"`

	// raw expression texts (expression lab / restriction checks): override the printer
	CondText   *[]int `json:"condtext,omitempty"`
	UpdText    *[]int `json:"updtext,omitempty"`
	KcText     *[]int `json:"kctext,omitempty"`
	FilterText *[]int `json:"filtertext,omitempty"`

	raw map[string]json.RawMessage
}

// ParseEvent decodes one operation record, keeping the original fields for pass-through.
func ParseEvent(line []byte) (*Event, error) {
	ev := &Event{}
	if err := json.Unmarshal(line, ev); err != nil {
		return nil, err
	}
	if err := json.Unmarshal(line, &ev.raw); err != nil {
		return nil, err
	}
	if ev.Op == "BatchWrite" && len(ev.Reqs) > 0 {
		if err := json.Unmarshal(ev.Reqs, &ev.WReqs); err != nil {
			return nil, err
		}
	}
	if ev.Op == "BatchGet" && len(ev.Reqs) > 0 {
		if err := json.Unmarshal(ev.Reqs, &ev.GReqs); err != nil {
			return nil, err
		}
	}
	return ev, nil
}

// IndexOpt reads the index field of a Query/Scan ([some, n]).
func (e *Event) IndexOpt() OptName {
	var o OptName
	if len(e.IndexN) > 0 {
		_ = json.Unmarshal(e.IndexN, &o)
	}
	return o
}

// IndexName reads the index field of AddIndex / DeleteIndex (a string).
func (e *Event) IndexName() string {
	var s string
	if len(e.IndexN) > 0 {
		_ = json.Unmarshal(e.IndexN, &s)
	}
	return s
}

// HashName / RangeName read AddTable / AddIndex string fields.
func (e *Event) HashName() string {
	var s string
	_ = json.Unmarshal(e.Hash, &s)
	return s
}

// RangeName reads the range field as a string.
func (e *Event) RangeName() string {
	var s string
	_ = json.Unmarshal(e.Range, &s)
	return s
}

// HashDef / RangeDef read CreateTable fields.
func (e *Event) HashDef() KeyDef {
	var k KeyDef
	_ = json.Unmarshal(e.Hash, &k)
	return k
}

// RangeDef reads the range key definition.
func (e *Event) RangeDef() KeyDef {
	var k KeyDef
	_ = json.Unmarshal(e.Range, &k)
	return k
}

// IdxDesc is one index of a table description.
type IdxDesc struct {
	Name  string `json:"name"`
	Hash  string `json:"hash"`
	Range string `json:"range"`
	Count OptInt `json:"count"`
	Proj  string `json:"proj"`
}

// Desc is a normalised DescribeTable.
type Desc struct {
	Count int       `json:"count"`
	Hash  string    `json:"hash"`
	Range string    `json:"range"`
	Gsis  []IdxDesc `json:"gsis"`
	Lsis  []IdxDesc `json:"lsis"`
}

// TableItems is the response of one table in a BatchGet.
type TableItems struct {
	T     string `json:"t"`
	Items []Item `json:"items"`
}

// TableKeys is the unprocessed keys of one table in a BatchGet.
type TableKeys struct {
	T    string `json:"t"`
	Keys []Item `json:"keys"`
}

// Resp is a normalised response; every field is always present so that TLC can read it.
type Resp struct {
	Err        string       `json:"err"`
	Msg        string       `json:"-"`
	Items      []Item       `json:"items"`
	Count      int          `json:"count"`
	Lek        OptKey       `json:"lek"`
	Item       OptItem      `json:"item"`
	Attrs      OptItem      `json:"attrs"`
	CcfItem    OptItem      `json:"ccfitem"`
	Desc       Desc         `json:"desc"`
	Unproc     []WriteReq   `json:"unproc"`
	Responses  []TableItems `json:"responses"`
	UnprocKeys []TableKeys  `json:"unprockeys"`
	Fired      []string     `json:"fired"`
	// Walk
	Full    *Resp   `json:"full,omitempty"`
	Pages   []*Resp `json:"pages,omitempty"`
	Deleted *OptKey `json:"deleted,omitempty"`

	shape string // which fields the judge reads (keeps traces small)
}

// MarshalJSON writes only the fields the judge reads for this kind of response.
func (r *Resp) MarshalJSON() ([]byte, error) {
	m := map[string]interface{}{"err": r.Err}
	if r.Err == "crash" && r.Msg != "" {
		m["msg"] = r.Msg // why the call counts as crashed (panic value, or the state of the goroutine that never returned)
	}
	if r.Fired != nil {
		m["fired"] = r.Fired
	}
	switch r.shape {
	case "get":
		m["item"] = r.Item
	case "write":
		m["attrs"] = r.Attrs
		m["ccfitem"] = r.CcfItem
	case "read":
		m["items"] = r.Items
		m["count"] = r.Count
		m["lek"] = r.Lek
	case "desc":
		m["desc"] = r.Desc
	case "bw":
		m["unproc"] = r.Unproc
	case "bg":
		m["responses"] = r.Responses
		m["unprockeys"] = r.UnprocKeys
	case "alias":
		m["item"] = r.Item
		m["attrs"] = r.Attrs
		m["count"] = r.Count
	case "walk":
		m["full"] = r.Full
		m["pages"] = r.Pages
		m["deleted"] = r.Deleted
	}
	return json.Marshal(m)
}

// NewResp returns a response with every collection non-nil.
func NewResp() *Resp {
	return &Resp{
		Err: "none", Items: []Item{},
		Lek: OptKey{K: Item{}}, Item: OptItem{I: Item{}}, Attrs: OptItem{I: Item{}}, CcfItem: OptItem{I: Item{}},
		Desc:   Desc{Gsis: []IdxDesc{}, Lsis: []IdxDesc{}},
		Unproc: []WriteReq{}, Responses: []TableItems{}, UnprocKeys: []TableKeys{},
	}
}

// optOf wraps a possibly empty item.
func optOf(it Item) OptItem {
	if len(it) == 0 {
		return OptItem{I: Item{}}
	}
	return OptItem{Some: true, I: it}
}

func optKeyOf(it Item) OptKey {
	if len(it) == 0 {
		return OptKey{K: Item{}}
	}
	return OptKey{Some: true, K: it}
}

// GetObs is one observed GetItem.
type GetObs struct {
	Key Item  `json:"key"`
	R   *Resp `json:"r"`
}

// PartObs is the two Queries of one index partition.
type PartObs struct {
	Hk  Value `json:"hk"`
	Fwd *Resp `json:"fwd"`
	Rev *Resp `json:"rev"`
}

// IdxObs is what one index shows.
type IdxObs struct {
	Name string    `json:"name"`
	Scan *Resp     `json:"scan"`
	Q    []PartObs `json:"q"`
}

// TableObs is the observation of one table name.
type TableObs struct {
	T      string   `json:"t"`
	Exists bool     `json:"exists"`
	Desc   Desc     `json:"desc"`
	Scan   *Resp    `json:"scan"`
	Gets   []GetObs `json:"gets"`
	Idx    []IdxObs `json:"idx"`
}

// ClientObs is the observation of one client.
type ClientObs struct {
	C      string     `json:"c"`
	Tables []TableObs `json:"tables"`
}

// Obs is [some, cs].
type Obs struct {
	Some bool        `json:"some"`
	Cs   []ClientObs `json:"cs"`
}
