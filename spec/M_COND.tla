--------------------------- MODULE M_COND ---------------------------
(* C05: conditional Put / Update / Delete for every condition of CondMenu in every state of a two-key table
   (target present or absent, bystander satisfying or not satisfying the condition), with a secondary index
   on w so that "the table and all its indexes are left exactly as they were" is observed.               *)
EXTENDS ModelLib
CONSTANTS KeyBytes

T1 == "tbl1"
K(b) == [h |-> S1(b)]
Keys == { K(b) : b \in KeyBytes }
VVals == { Num(1), Num(2) }
Shapes == { <<>> } \cup { [v |-> x] : x \in VVals } \cup { [w |-> S1(120)] } \cup { [v |-> x, w |-> S1(120)] : x \in VVals }
Items == { k @@ m : k \in Keys, m \in Shapes }

\* <<condition, names, values>>
CondMenu == {
  <<Fn("attribute_exists", <<Path("h")>>), <<>>, <<>>>>,
  <<Fn("attribute_not_exists", <<Path("h")>>), <<>>, <<>>>>,
  <<Cmp("=", Path("v"), Val(":one")), <<>>, One(":one", Num(1))>>,
  <<Cmp("<>", Path("v"), Val(":one")), <<>>, One(":one", Num(1))>>,
  <<And(Cmp("<", PathA("#v"), Val(":two")), Fn("attribute_exists", <<PathA("#w")>>)), [n \in {"#v", "#w"} |-> IF n = "#v" THEN "v" ELSE "w"], One(":two", Num(2))>>,
  <<Or(Cmp("=", PathA("#w"), Val(":one")), Cmp("=", PathA("#v"), Val(":x"))), [n \in {"#v", "#w"} |-> IF n = "#v" THEN "v" ELSE "w"], [n \in {":one", ":x"} |-> IF n = ":one" THEN Num(1) ELSE S1(120)]>>,
  <<Not(Or(Cmp("=", Path("v"), Val(":one")), Cmp("=", Path("w"), Val(":x")))), <<>>, [n \in {":one", ":x"} |-> IF n = ":one" THEN Num(1) ELSE S1(120)]>>
}

SetupDef == << AddTable("c1", T1, "h", ""), AddIndex("c1", T1, "wix", "w", "") >>
MenuDef == SetToSeq(
     { Put(T1, it) : it \in Items } \cup { Del(T1, k, FALSE) : k \in Keys }
  \cup { PutC("c1", T1, k @@ [v |-> Num(2)], Cond(cm[1]), cm[2], cm[3], FALSE) : k \in Keys, cm \in CondMenu }
  \cup { DelC("c1", T1, k, Cond(cm[1]), cm[2], cm[3], b, FALSE) : k \in Keys, cm \in CondMenu, b \in BOOLEAN }
  \cup { UpdC("c1", T1, k, SetU("v", Val(":nv")), Cond(cm[1]), cm[2], cm[3] @@ One(":nv", Num(2)), rv) : k \in Keys, cm \in CondMenu, rv \in BOOLEAN }
  \cup { UpdC("c1", T1, k, RemU("w"), Cond(cm[1]), cm[2], cm[3], FALSE) : k \in Keys, cm \in CondMenu } )
BoundDef(d) == TRUE
=============================================================================
