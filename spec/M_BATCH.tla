--------------------------- MODULE M_BATCH ---------------------------
(* C19: BatchWriteItem of one to three requests over two tables (puts, deletes, repeated tables, absent keys) and
   BatchGetItem of present and absent keys in every reachable state; the specification IS the item-by-item
   decomposition (BatchApply folds Put / Delete IN REQUEST ORDER, which is also what decides batches that name one key
   twice), the invariant BatchOrderIrrelevant checks that the result does
   not depend on the order of requests on distinct keys (which justifies ignoring Go's map order across tables). *)
EXTENDS ModelLib
CONSTANTS KeyBytes, WithGets

TA == "tbl1"
TB == "tbl2"
K(b) == [h |-> S1(b)]
Keys == { K(b) : b \in KeyBytes }
Req(t, kind, x) == [t |-> t, put |-> [some |-> kind = "put", i |-> IF kind = "put" THEN x ELSE <<>>],
                    del |-> [some |-> kind = "del", k |-> IF kind = "del" THEN x ELSE <<>>]]
BW(reqs) == [op |-> "BatchWrite", c |-> "c1", reqs |-> reqs]
BG(reqs) == [op |-> "BatchGet", c |-> "c1", reqs |-> reqs]
Singles == { Req(t, "put", k @@ [v |-> Num(1)]) : t \in {TA, TB}, k \in Keys } \cup { Req(t, "put", k) : t \in {TA}, k \in Keys }
           \cup { Req(t, "del", k) : t \in {TA, TB}, k \in Keys }
KeyOfReq(r) == <<r.t, IF r.put.some THEN r.put.i.h ELSE r.del.k.h>>
Batches == { <<a>> : a \in Singles }
           \cup { <<ab[1], ab[2]>> : ab \in { x \in Singles \X Singles : KeyOfReq(x[1]) # KeyOfReq(x[2]) } }
SameKeyBatches == { <<ab[1], ab[2]>> : ab \in { x \in Singles \X Singles : KeyOfReq(x[1]) = KeyOfReq(x[2]) /\ x[1] # x[2] /\ x[1].t = TA } }
Gets == { BG(<<[t |-> TA, keys |-> ks]>>) : ks \in { <<K(97)>>, <<K(97), K(98)>> } }
        \cup { BG(<<[t |-> TA, keys |-> <<K(97)>>], [t |-> TB, keys |-> <<K(98), K(97)>>]>>) }

SetupDef == << AddTable("c1", TA, "h", ""), AddTable("c1", TB, "h", "") >>
MenuDef == SetToSeq({ BW(b) : b \in Batches \cup SameKeyBatches }) \o (IF WithGets THEN SetToSeq(Gets) ELSE <<>>)
BoundDef(d) == TRUE

\* design check: the outcome of a batch on distinct keys does not depend on the order of its requests
Swap(b) == IF Len(b) = 2 THEN <<b[2], b[1]>> ELSE b
BatchOrderIrrelevant == \A b \in Batches : BatchApply(db, "c1", b) = BatchApply(db, "c1", Swap(b))
=============================================================================
