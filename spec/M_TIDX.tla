--------------------------- MODULE M_TIDX ---------------------------
(* C02 / C03, typed index keys: a hash-only table with a global index gnx on (g : S, n : N) - the sort key of the index has
   another type than its partition key - and a local-style second index gbx on (g : S, b : B).  Every reachable content
   over three keys; writes that move an item inside an index (only the sort attribute changes), into it, out of it
   (REMOVE of one key attribute) and between partitions; after every write the full observation reads both indexes in
   both directions.  Numbers are single digits and binaries single bytes, so that the known deviation "typed keys are
   ordered by their text" (C12) stays out of the way.                                                          *)
EXTENDS ModelLib
CONSTANTS KeyBytes

T1 == "tbl1"
K(b) == [h |-> S1(b)]
Keys == { K(b) : b \in KeyBytes }
GV == { S1(112) }
NV == { Num(4), Num(6), Num(9) }
Items == { k @@ g @@ n : k \in Keys, g \in { <<>> } \cup { [g |-> x] : x \in GV }, n \in { <<>> } \cup { [n |-> x] : x \in NV } }
          \cup { k @@ [g |-> S1(112), b |-> Bin(<<7>>)] : k \in Keys }
Updates == { <<SetU("n", Val(":n")), One(":n", x)>> : x \in NV }
           \cup { <<RemU("n"), <<>>>>, <<RemU("g"), <<>>>>, <<SetU("g", Val(":g")), One(":g", S1(112))>> }
AD(n, ty) == [n |-> n, ty |-> ty]
CT == [op |-> "CreateTable", c |-> "c1", t |-> T1, hash |-> [n |-> "h", ty |-> "S"], range |-> [some |-> FALSE, n |-> "", ty |-> ""],
       billing |-> "PAY_PER_REQUEST", thr |-> FALSE, attrs |-> <<AD("h", "S"), AD("g", "S"), AD("n", "N"), AD("b", "B")>>,
       gsis |-> <<[name |-> "gnx", hash |-> "g", range |-> [some |-> TRUE, n |-> "n"], proj |-> "ALL", thr |-> FALSE],
                  [name |-> "gbx", hash |-> "g", range |-> [some |-> TRUE, n |-> "b"], proj |-> "ALL", thr |-> FALSE]>>,
       lsis |-> <<>>]
GK == Cmp("=", Path("g"), Val(":g"))
IX(n) == [some |-> TRUE, n |-> n]
SetupDef == << CT >>
MenuDef == SetToSeq( { Put(T1, it) : it \in Items }
                     \cup { Del(T1, k, FALSE) : k \in Keys }
                     \cup { Upd(T1, k, u[1], u[2]) : k \in Keys, u \in Updates }
                     \cup { QueryOp("c1", T1, IX("gnx"), And(GK, Cmp(op, Path("n"), Val(":n"))), NoFilter, <<>>,
                                    [x \in {":g", ":n"} |-> IF x = ":g" THEN S1(112) ELSE Num(6)], TRUE) : op \in {"<", ">=", "="} }
                     \cup { Clear("c1", T1) } )
BoundDef(d) == TRUE
=============================================================================
