--------------------------- MODULE M_FAIL ---------------------------
(* C08: every class of failing request in every state of a two-key table with a secondary index whose key
   attribute g is declared S: validation failures (missing / wrong-typed key, index-key type mismatch),
   ill-typed updates, malformed conditions, unknown table, unused placeholders, failed conditions, and a
   batch whose second request is invalid.  After each of them the full observation must be unchanged.    *)
EXTENDS ModelLib
CONSTANTS KeyBytes

T1 == "tbl1"
K(b) == [h |-> S1(b)]
Keys == { K(b) : b \in KeyBytes }
Shapes == { <<>>, [g |-> S1(112)], [v |-> Num(1)], [g |-> S1(112), v |-> Num(1)] }
Items == { k @@ m : k \in Keys, m \in Shapes }
BadKeys == { <<>>, [h |-> Num(1)], [x |-> S1(97)] }
Req(t, kind, x) == [t |-> t, put |-> [some |-> kind = "put", i |-> IF kind = "put" THEN x ELSE <<>>],
                    del |-> [some |-> kind = "del", k |-> IF kind = "del" THEN x ELSE <<>>]]
BW(reqs) == [op |-> "BatchWrite", c |-> "c1", reqs |-> reqs]

Failing(k) == {
  Put(T1, k @@ [g |-> Num(1)]),                                           \* index key of the wrong type (hash of gix / gsx, no s)
  Put(T1, k @@ [g |-> Num(1), s |-> S1(49)]), Put(T1, k @@ [g |-> S1(112), s |-> Num(1)]),   \* gsx: hash / range ill-typed
  Put(T1, k @@ [e |-> Num(1)]), Put(T1, k @@ [e |-> Num(1), s |-> S1(49)]), Put(T1, k @@ [s |-> Num(1)]),   \* esx(e, s): the only index on e;
  Put(T1, k @@ [e |-> S1(112), s |-> Num(1)]),                            \*   hash ill-typed without / with the sort attribute, sort attribute alone
  Upd(T1, k, SetU("e", Val(":n")), One(":n", Num(7))), Upd(T1, k, SetU("s", Val(":n")), One(":n", Num(7))),
  Upd(T1, k, [NoUpd EXCEPT !.set = <<[p |-> P("v"), v |-> Val(":m")], [p |-> P("e"), v |-> Val(":n")]>>],
      [x \in {":n", ":m"} |-> IF x = ":n" THEN Num(7) ELSE Num(8)]),        \* a valid SET next to the one that breaks the index key
  Put(T1, k @@ [l |-> Num(1)]), Put(T1, k @@ [g |-> S1(112), l |-> Bool(TRUE)]),              \* local index sort key ill-typed
  Upd(T1, k, SetU("l", Val(":n")), One(":n", Num(7))),
  Upd(T1, k, SetU("g", Val(":n")), One(":n", Num(7))),                    \* update makes the index key ill-typed
  Upd(T1, k, SetU("v", [k |-> "plus", l |-> Path("zz"), r |-> Val(":n")]), One(":n", Num(1))),   \* operand missing
  Upd(T1, k, SetU("v", [k |-> "lapp", l |-> Path("g"), r |-> Val(":s")]), One(":s", S1(115))),  \* list_append on non-lists
  PutC("c1", T1, k, NoCond, <<>>, One(":unused", Num(1)), FALSE),         \* unused value placeholder
  PutC("c1", T1, k, NoCond, One("#unused", "v"), <<>>, FALSE),            \* unused name placeholder
  PutC("c1", T1, k @@ [v |-> Num(2)], Cond(Fn("attribute_type", <<Path("g"), Val(":n")>>)), <<>>, One(":n", Num(1)), FALSE),  \* ill-typed literal
  PutC("c1", T1, k @@ [v |-> Num(2)], Cond(Fn("attribute_not_exists", <<Path("h")>>)), <<>>, <<>>, FALSE),   \* refused when present
  UpdC("c1", T1, k, SetU("v", Val(":n")), Cond(Fn("attribute_exists", <<Path("g")>>)), <<>>, One(":n", Num(2)), FALSE),
  DelC("c1", T1, k, Cond(Cmp("=", Path("v"), Val(":n"))), <<>>, One(":n", Num(5)), FALSE, FALSE),
  Put("tblx", k), Upd("tblx", k, SetU("v", Val(":n")), One(":n", Num(2))), Del("tblx", k, FALSE), Get("tblx", k)
}
\* a batch whose LAST request is invalid (put without its key, put with an ill-typed index key, delete with a malformed key,
\* request for an unknown table) after a valid put / delete: nothing of the batch may be applied
Batches(k) == { BW(<<first, second>>) :
                  first \in { Req(T1, "put", k @@ [v |-> Num(9)]), Req(T1, "del", k) },
                  second \in { Req(T1, "put", [v |-> Num(9)]), Req(T1, "put", k @@ [g |-> Num(1)]), Req(T1, "put", k @@ [l |-> Num(1)]), Req(T1, "put", k @@ [e |-> S1(112), s |-> Num(1)]), Req(T1, "del", [x |-> S1(97)]),
                               Req(T1, "del", [h |-> Num(1)]), Req("tblx", "put", k) } }

AD(n) == [n |-> n, ty |-> "S"]
\* hash-only table would not allow a local index: the table has a sort key r (always "1" in this model)
CT == [op |-> "CreateTable", c |-> "c1", t |-> T1, hash |-> [n |-> "h", ty |-> "S"], range |-> [some |-> FALSE, n |-> "", ty |-> ""],
       billing |-> "PAY_PER_REQUEST", thr |-> FALSE, attrs |-> <<AD("h"), AD("g"), AD("s"), AD("l"), AD("e")>>,
       gsis |-> <<[name |-> "gix", hash |-> "g", range |-> [some |-> FALSE, n |-> ""], proj |-> "ALL", thr |-> FALSE],
                  [name |-> "gsx", hash |-> "g", range |-> [some |-> TRUE, n |-> "s"], proj |-> "ALL", thr |-> FALSE],
                  [name |-> "esx", hash |-> "e", range |-> [some |-> TRUE, n |-> "s"], proj |-> "ALL", thr |-> FALSE]>>,
       lsis |-> <<[name |-> "lix", hash |-> "h", range |-> [some |-> TRUE, n |-> "l"], proj |-> "ALL"]>>]
SetupDef == << CT >>
MenuDef == SetToSeq(
     { Put(T1, it) : it \in Items } \cup { Del(T1, k, FALSE) : k \in Keys }
  \cup UNION { Failing(k) : k \in Keys } \cup UNION { Batches(k) : k \in Keys }
  \cup { Put(T1, bk @@ [v |-> Num(1)]) : bk \in BadKeys }
  \cup { Get(T1, bk) : bk \in BadKeys } \cup { Del(T1, bk, FALSE) : bk \in BadKeys }
  \cup { Upd(T1, bk, SetU("v", Val(":n")), One(":n", Num(2))) : bk \in BadKeys }
  \cup { ScanOp("c1", "tblx", NoIndex, NoFilter, <<>>, <<>>) } )
BoundDef(d) == TRUE
=============================================================================
