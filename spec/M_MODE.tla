--------------------------- MODULE M_MODE ---------------------------
(* C15: every kind of operation under every emulated failure mode, with toggle sequences (EmulateFailure none /
   internal-server, ActiveForceFailure, DeactiveForceFailure) interleaved with state-building writes; batches of
   one and two requests.  After each failing call the observation (taken with the failure switched off and on
   again) must be unchanged; after deactivation everything behaves as if the failing calls had not been made. *)
EXTENDS ModelLib
CONSTANTS KeyBytes

T1 == "tbl1"
K(b) == [h |-> S1(b)]
Keys == { K(b) : b \in KeyBytes }
Items == { k @@ m : k \in Keys, m \in { <<>>, [v |-> Num(1)] } }
Req(t, kind, x) == [t |-> t, put |-> [some |-> kind = "put", i |-> IF kind = "put" THEN x ELSE <<>>],
                    del |-> [some |-> kind = "del", k |-> IF kind = "del" THEN x ELSE <<>>]]
BW(reqs) == [op |-> "BatchWrite", c |-> "c1", reqs |-> reqs]
Transact == [op |-> "Transact", c |-> "c1"]
KA == K(97)
KB == K(98)

\* a batch whose items hold empty containers, sent only while the internal-server failure is on (everything comes back unprocessed,
\* exactly as it was sent; nothing is stored, so the known deviation about empty containers on the read side stays out of the way)
EmptiesBatch == BW(<<Req(T1, "put", KA @@ [l |-> Mk("L", <<>>), m |-> Mk("M", <<>>)]), Req(T1, "put", KB @@ [l |-> Mk("L", <<Mk("M", <<>>)>>)])>>)
OnlyWhileFailing(d, e) == e = EmptiesBatch => d["c1"].fail = "internal"
T2 == "tbl2"
SetupDef == << AddTable("c1", T1, "h", ""), AddTable("c1", T2, "h", "") >>
MenuDef == SetToSeq(
     { Put(T1, it) : it \in Items } \cup { Del(T1, k, FALSE) : k \in Keys } \cup { Get(T1, k) : k \in Keys }
  \cup { Upd(T1, k, SetU("v", Val(":n")), One(":n", Num(1))) : k \in Keys }
  \cup { ScanOp("c1", T1, NoIndex, NoFilter, <<>>, <<>>),
         QueryOp("c1", T1, NoIndex, Cmp("=", Path("h"), Val(":h")), NoFilter, <<>>, One(":h", S1(97)), TRUE),
         Describe("c1", T1), Transact,
         [op |-> "BatchGet", c |-> "c1", reqs |-> <<[t |-> T1, keys |-> <<KA, KB>>]>>],
         [op |-> "BatchGet", c |-> "c1", reqs |-> <<[t |-> T1, keys |-> <<KB>>], [t |-> T2, keys |-> <<KA>>]>>],
         BW(<<Req(T1, "put", KA @@ [v |-> Num(1)])>>), BW(<<Req(T1, "del", KA)>>),
         BW(<<Req(T1, "put", KA), Req(T1, "del", KB)>>),
         BW(<<Req(T1, "put", KA), Req(T2, "put", KB), Req(T1, "put", KB @@ [v |-> Num(1)]), Req(T2, "del", KA)>>),   \* two tables, two requests each
         BW(<<Req(T2, "put", KA @@ [v |-> Num(1)]), Req(T1, "del", KA)>>),
         BW(<<Req("tblx", "put", KA), Req(T1, "put", KB @@ [v |-> Num(1)])>>),      \* one request names a table that does not exist
         EmptiesBatch,
         Fail("c1", "none"), Fail("c1", "internal"), Fail("c1", "deprecated"), Fail("c1", "deactivate") } )
BoundDef(d) == TRUE
=============================================================================
