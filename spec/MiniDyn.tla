--------------------------- MODULE MiniDyn ---------------------------
(* The database behind a minidyn client, as the properties in properties.jsonl describe it.

   State   db : client id -> [tables : table name -> Table, fail : "none" | "internal" | "deprecated",
                              native : [active : BOOLEAN, regs : SET of registrations]]        (C20)
           Table = [hash  : [n, ty],  range : [some, n, ty],  defs : attribute name -> scalar type,
                    idx   : index name -> [kind : "g" | "l", hash : name, range : [some, n], proj : string],
                    items : SET of items,          (an item is a function attribute name -> value)
                    prov  : BOOLEAN]               (billing mode PROVISIONED)
   Secondary indexes are not state: IndexView(tbl, ix) DEFINES what reading through an index returns.

   One public call = one operation record `e` (fields fixed per e.op, see Appendix E of DESIGN.md).
   Plan(db, e) = [ocs  |-> set of allowed outcome classes ("ok", "ccf", "err"),
                  cls  |-> allowed error classes when the outcome is "err",
                  next |-> the state after an "ok" outcome (any other outcome leaves db unchanged)]
   RespOK*(db, e, oc, r)  relate a response to the pre-state; ObsOK*(db, o) relate an observation
   (DescribeTable, Scan, GetItem, index Scans and Queries) to a state.
   Generators step with Plan only; the trace judge (Trace.tla) evaluates every predicate.             *)
EXTENDS Expr

Clients == {"c1", "c2"}
EmptyClient == [tables |-> <<>>, fail |-> "none", native |-> [active |-> FALSE, regs |-> {}]]
InitDB == [c \in Clients |-> EmptyClient]

GenErr  == {"validation", "syntax", "unsupported", "other", "panic_syntax"}
NoSome  == [some |-> FALSE]

----------------------------------------------------------------------------
(* tables *)
KeyAttrs(tbl) == {tbl.hash.n} \cup (IF tbl.range.some THEN {tbl.range.n} ELSE {})
KeyTypeOK(tbl, it) == /\ tbl.hash.n \in DOMAIN it /\ it[tbl.hash.n].t = tbl.hash.ty
                      /\ tbl.range.some => (tbl.range.n \in DOMAIN it /\ it[tbl.range.n].t = tbl.range.ty)
KeyEq(tbl, i, j) == \A a \in KeyAttrs(tbl) : SameValue(i[a], j[a])
Lookup(tbl, key) == { i \in tbl.items : KeyEq(tbl, i, key) }
KeyOf(tbl, it) == [a \in KeyAttrs(tbl) |-> it[a]]
ValidKeyArg(tbl, key) == DOMAIN key = KeyAttrs(tbl) /\ KeyTypeOK(tbl, key)
\* a key that carries the key attributes plus others: DynamoDB rejects it, the properties do not say; either way
OverKey(tbl, key) == KeyTypeOK(tbl, key) /\ DOMAIN key # KeyAttrs(tbl)

IdxAttrs(ixd) == {ixd.hash} \cup (IF ixd.range.some THEN {ixd.range.n} ELSE {})
\* every index key attribute the item carries has the declared type
IdxKeysTyped(tbl, it) == \A ix \in DOMAIN tbl.idx : \A a \in IdxAttrs(tbl.idx[ix]) :
                            (a \in DOMAIN it /\ a \in DOMAIN tbl.defs) => it[a].t = tbl.defs[a]
InView(tbl, ix, it) == \A a \in IdxAttrs(tbl.idx[ix]) :
                          a \in DOMAIN it /\ (a \in DOMAIN tbl.defs => it[a].t = tbl.defs[a])
IndexView(tbl, ix) == { it \in tbl.items : InView(tbl, ix, it) }

ItemValid(it) == \A a \in DOMAIN it : ValidValue(it[a])

PutInto(tbl, it) == [tbl EXCEPT !.items = (tbl.items \ Lookup(tbl, it)) \cup {it}]
DelFrom(tbl, key) == [tbl EXCEPT !.items = tbl.items \ Lookup(tbl, key)]

WithTable(db, c, t, tbl) == [db EXCEPT ![c].tables = [n \in (DOMAIN db[c].tables) \cup {t} |->
                                                         IF n = t THEN tbl ELSE db[c].tables[n]]]
WithoutTable(db, c, t) == [db EXCEPT ![c].tables = [n \in (DOMAIN db[c].tables) \ {t} |-> db[c].tables[n]]]

----------------------------------------------------------------------------
(* placeholder discipline (C16): every supplied #name / :value is used, every used one is supplied *)
CondPart(cond) == IF cond.some THEN cond.ast ELSE [k |-> "none"]
PlaceholdersOK(usedN, usedV, names, values) == usedN = DOMAIN names /\ usedV = DOMAIN values

----------------------------------------------------------------------------
(* native interpreter (C20): Go callbacks registered per (table, expression kind, expression text up to surrounding and
   repeated whitespace).  A registered matcher decides instead of the built-in interpreter; without one the built-in
   interpreter decides; an update without a registered updater is an unsupported-feature error.               *)
IsBlank(c) == c \in {32, 9, 10, 13}
RECURSIVE Collapse(_,_)
Collapse(b, prevBlank) == IF b = <<>> THEN <<>>
                          ELSE IF IsBlank(Head(b)) THEN (IF prevBlank THEN Collapse(Tail(b), TRUE) ELSE <<32>> \o Collapse(Tail(b), TRUE))
                          ELSE <<Head(b)>> \o Collapse(Tail(b), FALSE)
NormWS(b) == LET c == Collapse(b, TRUE) IN IF c # <<>> /\ c[Len(c)] = 32 THEN SubSeq(c, 1, Len(c) - 1) ELSE c
RegsFor(cl, t, kind, text) == IF ~cl.native.active THEN {} ELSE { g \in cl.native.regs : g.t = t /\ g.kind = kind /\ g.text = NormWS(text) }
HasText(e, f) == f \in DOMAIN e
\* outcome of a write condition: decided by a registered matcher if there is one, else by the language
CondDecision(cl, e, stored) ==
  IF ~e.cond.some THEN {"T"}
  ELSE LET gs == IF HasText(e, "condtext") THEN RegsFor(cl, e.t, "conditional", e.condtext) ELSE {}
       IN IF gs # {} THEN { IF g.verdict THEN "T" ELSE "F" : g \in gs }
          ELSE CondOut(e.cond.ast, stored, e.names, e.values)
CondRegs(cl, e) == IF e.cond.some /\ HasText(e, "condtext") THEN RegsFor(cl, e.t, "conditional", e.condtext) ELSE {}

----------------------------------------------------------------------------
(* key conditions (C16 / C02): hash = :v  [AND one sort-key condition] *)
IsAttr(o, names, a) == o.k = "path" /\ Len(o.p) = 1 /\ ResolveOK(o.p, names) /\ Resolve(o.p, names)[1].n = a
IsLit(o) == o.k = "val"
HashEq(c, names, h) == c.k = "cmp" /\ c.op = "=" /\ ((IsAttr(c.l, names, h) /\ IsLit(c.r)) \/ (IsAttr(c.r, names, h) /\ IsLit(c.l)))
SortCond(c, names, r) ==
  \/ c.k = "cmp" /\ c.op \in {"=", "<", "<=", ">", ">="} /\ IsAttr(c.l, names, r) /\ IsLit(c.r)
  \/ c.k = "between" /\ IsAttr(c.x, names, r) /\ IsLit(c.lo) /\ IsLit(c.hi)
  \/ c.k = "fn" /\ c.f = "begins_with" /\ Len(c.args) = 2 /\ IsAttr(c.args[1], names, r) /\ IsLit(c.args[2])
ValidKeyCond(c, names, h, rng) ==
  \/ HashEq(c, names, h)
  \/ /\ rng.some /\ c.k = "and"
     /\ \/ HashEq(c.l, names, h) /\ SortCond(c.r, names, rng.n)
        \/ HashEq(c.r, names, h) /\ SortCond(c.l, names, rng.n)

----------------------------------------------------------------------------
(* Plan *)
\* an ExclusiveStartKey that is present but EMPTY (a caller feeding the last, empty LastEvaluatedKey back): refused, or read
\* as "no start key" - the properties do not say which, but both clients must do the same (C17) and a read it is
EmptyEsk(q) == q.esk.some /\ DOMAIN q.esk.k = {}
NoEskOf(q) == ~q.esk.some \/ EmptyEsk(q)

FailCls(mode) == IF mode = "internal" THEN {"internal"} ELSE {"forced"}
Refuse(db, cls) == [ocs |-> {"err"}, cls |-> cls, next |-> db]
Ok(next) == [ocs |-> {"ok"}, cls |-> {}, next |-> next]
OutcomeOfCond(O) == { IF x = "T" THEN "ok" ELSE IF x = "F" THEN "ccf" ELSE "err" : x \in O }

DataOps == {"PutItem", "GetItem", "UpdateItem", "DeleteItem", "Query", "Scan", "Walk", "BatchWrite", "BatchGet", "Transact"}

StoredOrEmpty(tbl, key) == IF Lookup(tbl, key) = {} THEN <<>> ELSE CHOOSE i \in Lookup(tbl, key) : TRUE

\* the target of a Query / Scan: [ok, view, hash, range]
Target(tbl, index) ==
  IF ~index.some THEN [ok |-> TRUE, view |-> tbl.items, hash |-> tbl.hash.n,
                       range |-> [some |-> tbl.range.some, n |-> tbl.range.n]]
  ELSE IF index.n \in DOMAIN tbl.idx
       THEN [ok |-> TRUE, view |-> IndexView(tbl, index.n), hash |-> tbl.idx[index.n].hash,
             range |-> tbl.idx[index.n].range]
       ELSE [ok |-> FALSE, view |-> {}, hash |-> "", range |-> [some |-> FALSE, n |-> ""]]

ReadUsedNames(q) == (IF q.kind = "query" THEN CondNames(q.kc) ELSE {}) \cup (IF q.filter.some THEN CondNames(q.filter.ast) ELSE {})
ReadUsedVals(q)  == (IF q.kind = "query" THEN CondVals(q.kc) ELSE {}) \cup (IF q.filter.some THEN CondVals(q.filter.ast) ELSE {})

\* static validity of a read request against a table
ReadValid(tbl, q) ==
  /\ PlaceholdersOK(ReadUsedNames(q), ReadUsedVals(q), q.names, q.values)
  /\ Target(tbl, q.index).ok
  /\ q.kind = "query" => ValidKeyCond(q.kc, q.names, Target(tbl, q.index).hash, Target(tbl, q.index).range)

\* does an item of the view belong to the result?  set of outcomes over {"T","F","E"}
ReadMatchO(q, it) ==
  AndO(IF q.kind = "query" THEN CondOut(q.kc, it, q.names, q.values) ELSE {"T"},
       IF q.filter.some THEN CondOut(q.filter.ast, it, q.names, q.values) ELSE {"T"})
\* the same with the client's native registrations taken into account
ReadMatchN(cl, q, it) ==
  LET kgs == IF q.kind = "query" /\ HasText(q, "kctext") THEN RegsFor(cl, q.t, "key", q.kctext) ELSE {}
      fgs == IF q.filter.some /\ HasText(q, "filtertext") THEN RegsFor(cl, q.t, "filter", q.filtertext) ELSE {}
  IN AndO(IF q.kind # "query" THEN {"T"} ELSE IF kgs # {} THEN { IF g.verdict THEN "T" ELSE "F" : g \in kgs } ELSE CondOut(q.kc, it, q.names, q.values),
          IF ~q.filter.some THEN {"T"} ELSE IF fgs # {} THEN { IF g.verdict THEN "T" ELSE "F" : g \in fgs } ELSE CondOut(q.filter.ast, it, q.names, q.values))

BatchWriteValid(reqs) == /\ Len(reqs) <= 25
                         /\ \A i \in DOMAIN reqs : reqs[i].put.some # reqs[i].del.some
BatchApply(db, c, reqs) ==
  LET F[i \in 0..Len(reqs)] ==
        IF i = 0 THEN db
        ELSE LET r == reqs[i]
                 tbl == F[i-1][c].tables[r.t]
             IN IF r.put.some THEN WithTable(F[i-1], c, r.t, PutInto(tbl, r.put.i))
                ELSE WithTable(F[i-1], c, r.t, DelFrom(tbl, r.del.k))
  IN F[Len(reqs)]
BatchReqOK(db, c, r) ==
  /\ r.t \in DOMAIN db[c].tables
  /\ LET tbl == db[c].tables[r.t]
     IN IF r.put.some THEN KeyTypeOK(tbl, r.put.i) /\ IdxKeysTyped(tbl, r.put.i) /\ ItemValid(r.put.i)
        ELSE ValidKeyArg(tbl, r.del.k)

IndexDefOK(defs, hash, range) == hash \in DOMAIN defs /\ (range.some => range.n \in DOMAIN defs)
DefsOf(attrs) == [n \in { attrs[i].n : i \in DOMAIN attrs } |->
                    attrs[CHOOSE i \in DOMAIN attrs : attrs[i].n = n /\ \A j \in DOMAIN attrs : attrs[j].n = n => j <= i].ty]
MergeDefs(defs, attrs) == LET nd == DefsOf(attrs) IN
                          [n \in (DOMAIN defs) \cup (DOMAIN nd) |-> IF n \in DOMAIN nd THEN nd[n] ELSE defs[n]]

AliasFinal(e) == IF e.kind \in {"stale-get", "stale-scan"} THEN e.item2
                 ELSE IF e.kind = "update-output" THEN e.item @@ [zother |-> Num(1)]
                 ELSE e.item

Plan(db, e) ==
  LET cl == db[e.c] IN
  IF e.op \in DataOps /\ cl.fail # "none" /\ ~(e.op = "BatchWrite" /\ cl.fail = "internal")
    THEN Refuse(db, FailCls(cl.fail))
  ELSE
  CASE e.op = "Fail" -> Ok([db EXCEPT ![e.c].fail = IF e.mode = "deactivate" THEN "none" ELSE e.mode])

    [] e.op = "AddTable" ->
         IF e.t \in DOMAIN cl.tables THEN Refuse(db, {"riu"})
         ELSE Ok(WithTable(db, e.c, e.t,
                 [hash |-> [n |-> e.hash, ty |-> "S"],
                  range |-> [some |-> e.range # "", n |-> e.range, ty |-> "S"],
                  defs |-> [n \in {e.hash} \cup (IF e.range # "" THEN {e.range} ELSE {}) |-> "S"],
                  idx |-> <<>>, items |-> {}, prov |-> FALSE]))

    [] e.op = "CreateTable" ->
         IF e.t \in DOMAIN cl.tables THEN Refuse(db, {"riu"})
         ELSE LET defs == DefsOf(e.attrs)
                  prov == e.billing # "PAY_PER_REQUEST"
                  good == /\ IndexDefOK(defs, e.hash.n, [some |-> e.range.some, n |-> e.range.n])
                          /\ e.hash.ty = defs[e.hash.n] /\ (e.range.some => e.range.ty = defs[e.range.n])
                          /\ (prov => e.thr)
                          /\ \A i \in DOMAIN e.gsis : IndexDefOK(defs, e.gsis[i].hash, e.gsis[i].range) /\ (prov => e.gsis[i].thr)
                          /\ \A i \in DOMAIN e.lsis : IndexDefOK(defs, e.lsis[i].hash, e.lsis[i].range)
                  names == { e.gsis[i].name : i \in DOMAIN e.gsis } \cup { e.lsis[i].name : i \in DOMAIN e.lsis }
                  ixOf(n) == IF \E i \in DOMAIN e.gsis : e.gsis[i].name = n
                             THEN LET g == e.gsis[CHOOSE i \in DOMAIN e.gsis : e.gsis[i].name = n]
                                  IN [kind |-> "g", hash |-> g.hash, range |-> g.range, proj |-> g.proj]
                             ELSE LET g == e.lsis[CHOOSE i \in DOMAIN e.lsis : e.lsis[i].name = n]
                                  IN [kind |-> "l", hash |-> g.hash, range |-> g.range, proj |-> g.proj]
              IN IF ~good THEN Refuse(db, GenErr)
                 ELSE Ok(WithTable(db, e.c, e.t,
                          [hash |-> e.hash, range |-> e.range, defs |-> defs,
                           idx |-> [n \in names |-> ixOf(n)], items |-> {}, prov |-> prov]))

    [] e.op = "DeleteTable" ->
         IF e.t \notin DOMAIN cl.tables THEN Refuse(db, {"rnf"}) ELSE Ok(WithoutTable(db, e.c, e.t))

    [] e.op = "DescribeTable" ->
         IF e.t \notin DOMAIN cl.tables THEN Refuse(db, {"rnf"}) ELSE Ok(db)

    [] e.op = "ClearTable" ->
         IF e.t \notin DOMAIN cl.tables THEN Refuse(db, {"rnf"})
         ELSE Ok(WithTable(db, e.c, e.t, [cl.tables[e.t] EXCEPT !.items = {}]))

    [] e.op = "AddIndex" ->   \* helper: UpdateTable creating one global index with string keys
         IF e.t \notin DOMAIN cl.tables THEN Refuse(db, {"rnf"})
         ELSE LET tbl == cl.tables[e.t]
                  rng == [some |-> e.range # "", n |-> e.range]
                  nd  == [n \in (DOMAIN tbl.defs) \cup {e.hash} \cup (IF rng.some THEN {rng.n} ELSE {}) |->
                             IF n = e.hash \/ (rng.some /\ n = rng.n) THEN "S" ELSE tbl.defs[n]]
              IN IF e.index \in DOMAIN tbl.idx THEN [ocs |-> {"ok", "err"}, cls |-> GenErr \cup {"riu"}, next |-> db]
                 ELSE IF tbl.prov THEN Refuse(db, GenErr)   \* the helper supplies no provisioned throughput
                 ELSE Ok(WithTable(db, e.c, e.t,
                          [tbl EXCEPT !.defs = nd,
                                      !.idx = [n \in (DOMAIN tbl.idx) \cup {e.index} |->
                                                 IF n = e.index THEN [kind |-> "g", hash |-> e.hash, range |-> rng, proj |-> "ALL"]
                                                 ELSE tbl.idx[n]]]))

    [] e.op = "DeleteIndex" ->
         IF e.t \notin DOMAIN cl.tables THEN Refuse(db, {"rnf"})
         ELSE LET tbl == cl.tables[e.t]
              IN IF e.index \notin DOMAIN tbl.idx THEN Refuse(db, GenErr \cup {"rnf"})
                 ELSE Ok(WithTable(db, e.c, e.t, [tbl EXCEPT !.idx = [n \in (DOMAIN tbl.idx) \ {e.index} |-> tbl.idx[n]]]))

    [] e.op = "PutItem" ->
         IF e.t \notin DOMAIN cl.tables THEN Refuse(db, {"rnf"} \cup GenErr)
         ELSE LET tbl == cl.tables[e.t]
                  static == /\ PlaceholdersOK(IF e.cond.some THEN CondNames(e.cond.ast) ELSE {},
                                              IF e.cond.some THEN CondVals(e.cond.ast) ELSE {}, e.names, e.values)
                            /\ KeyTypeOK(tbl, e.item) /\ IdxKeysTyped(tbl, e.item) /\ ItemValid(e.item)
              IN IF ~static THEN Refuse(db, GenErr)
                 ELSE LET O == CondDecision(cl, e, StoredOrEmpty(tbl, e.item))
                      IN [ocs |-> OutcomeOfCond(O), cls |-> GenErr,
                          next |-> WithTable(db, e.c, e.t, PutInto(tbl, e.item))]

    [] e.op = "DeleteItem" ->
         IF e.t \notin DOMAIN cl.tables THEN Refuse(db, {"rnf"} \cup GenErr)
         ELSE LET tbl == cl.tables[e.t]
                  static == /\ PlaceholdersOK(IF e.cond.some THEN CondNames(e.cond.ast) ELSE {},
                                              IF e.cond.some THEN CondVals(e.cond.ast) ELSE {}, e.names, e.values)
                            /\ ValidKeyArg(tbl, e.key)
              IN IF ~static THEN Refuse(db, GenErr)
                 ELSE LET O == CondDecision(cl, e, StoredOrEmpty(tbl, e.key))
                          \* a ReturnValues other than NONE / ALL_OLD: DynamoDB refuses the request, the code at the pinned commit ignores the
                          \* field; either - but a refused request deletes nothing (the judge compares the observation with the unchanged state)
                          odd == "retvals" \in DOMAIN e /\ e.retvals \notin {"", "NONE", "ALL_OLD"}
                      IN [ocs |-> OutcomeOfCond(O) \cup (IF odd THEN {"err"} ELSE {}), cls |-> GenErr,
                          next |-> WithTable(db, e.c, e.t, DelFrom(tbl, e.key))]

    [] e.op = "UpdateItem" ->
         IF e.t \notin DOMAIN cl.tables THEN Refuse(db, {"rnf"} \cup GenErr)
         ELSE LET tbl == cl.tables[e.t]
                  static == /\ PlaceholdersOK(UpdNames(e.upd) \cup (IF e.cond.some THEN CondNames(e.cond.ast) ELSE {}),
                                              UpdVals(e.upd) \cup (IF e.cond.some THEN CondVals(e.cond.ast) ELSE {}),
                                              e.names, e.values)
                            /\ ValidKeyArg(tbl, e.key)
              IN IF ~static THEN Refuse(db, GenErr)
                 ELSE LET old == StoredOrEmpty(tbl, e.key)
                          O   == CondDecision(cl, e, old)
                          base == IF Lookup(tbl, e.key) = {} THEN e.key ELSE old
                          ugs == IF HasText(e, "updtext") THEN RegsFor(cl, e.t, "update", e.updtext) ELSE {}
                          res == IF ~cl.native.active THEN ApplyU(e.upd, base, e.names, e.values, KeyAttrs(tbl))
                                 ELSE IF ugs = {} THEN [ok |-> FALSE, item |-> base]       \* unsupported feature: no updater registered
                                 ELSE LET g == CHOOSE x \in ugs : TRUE       \* the registered updater: sets one attribute, may delete another
                                          set == [a \in {g.attr} |-> g.val] @@ base
                                      IN [ok |-> TRUE, item |-> IF g.rem = "" THEN set ELSE [a \in (DOMAIN set) \ {g.rem} |-> set[a]]]
                          good == res.ok /\ ItemValid(res.item) /\ IdxKeysTyped(tbl, res.item)
                      IN [ocs |-> (IF "T" \in O THEN (IF good THEN {"ok"} ELSE {"err"}) ELSE {})
                                  \cup (IF "F" \in O THEN (IF good THEN {"ccf"} ELSE {"ccf", "err"}) ELSE {})
                                  \cup (IF "E" \in O THEN {"err"} ELSE {}),
                          cls |-> GenErr,
                          next |-> IF good THEN WithTable(db, e.c, e.t, PutInto(tbl, res.item)) ELSE db]

    [] e.op = "GetItem" ->
         IF e.t \notin DOMAIN cl.tables THEN Refuse(db, {"rnf"})
         ELSE IF OverKey(cl.tables[e.t], e.key) THEN [ocs |-> {"ok", "err"}, cls |-> GenErr, next |-> db]
         ELSE IF ~ValidKeyArg(cl.tables[e.t], e.key) THEN Refuse(db, GenErr)
         ELSE Ok(db)

    [] e.op \in {"Query", "Scan"} ->
         IF e.t \notin DOMAIN cl.tables THEN Refuse(db, {"rnf"} \cup GenErr)
         ELSE LET tbl == cl.tables[e.t] IN
              IF ~ReadValid(tbl, e) THEN Refuse(db, GenErr)
              ELSE LET O == UNION { ReadMatchN(cl, e, it) : it \in Target(tbl, e.index).view }
                   IN [ocs |-> (IF "E" \in O \/ EmptyEsk(e) THEN {"err"} ELSE {}) \cup (IF O # {"E"} THEN {"ok"} ELSE {}),
                       cls |-> GenErr, next |-> db]

    [] e.op = "Walk" ->   \* composite read: unpaginated read + page walk (+ delete of a boundary item)
         IF e.t \notin DOMAIN cl.tables THEN Refuse(db, {"rnf"} \cup GenErr)
         ELSE Ok(db)    \* the state change of a boundary delete is applied by the judge (it depends on the response)

    [] e.op = "BatchWrite" ->
         IF ~BatchWriteValid(e.reqs) THEN Refuse(db, GenErr)
         ELSE IF cl.fail = "internal" THEN Ok(db)
         ELSE IF \E i \in DOMAIN e.reqs : ~BatchReqOK(db, e.c, e.reqs[i])
              THEN [ocs |-> {"err"}, cls |-> GenErr \cup {"rnf"}, next |-> db]
         ELSE Ok(BatchApply(db, e.c, e.reqs))

    [] e.op = "BatchGet" ->
         IF \E i \in DOMAIN e.reqs : e.reqs[i].t \notin DOMAIN cl.tables THEN [ocs |-> {"ok", "err"}, cls |-> {"rnf"} \cup GenErr, next |-> db]
         ELSE Ok(db)

    [] e.op = "Transact" -> Ok(db)

    [] e.op = "NativeActivate" -> Ok([db EXCEPT ![e.c].native.active = TRUE])
    \* SetInterpreter with ANOTHER native interpreter instance that holds the same registrations: nothing changes
    [] e.op = "NativeSwap" -> Ok(db)
    [] e.op = "AddMatcher" ->
         LET g == [t |-> e.t, kind |-> e.mkind, text |-> NormWS(e.text), id |-> e.id, verdict |-> e.verdict]
             keep == { x \in cl.native.regs : ~(x.t = g.t /\ x.kind = g.kind /\ x.text = g.text) }
         IN Ok([db EXCEPT ![e.c].native.regs = keep \cup {g}])
    [] e.op = "AddUpdater" ->
         LET g == [t |-> e.t, kind |-> "update", text |-> NormWS(e.text), id |-> e.id, attr |-> e.attr, val |-> e.val,
                   rem |-> IF "rem" \in DOMAIN e THEN e.rem ELSE ""]
             keep == { x \in cl.native.regs : ~(x.t = g.t /\ x.kind = g.kind /\ x.text = g.text) }
         IN Ok([db EXCEPT ![e.c].native.regs = keep \cup {g}])

    \* C14: a scenario in which the CALLER overwrites its own memory (request structures after the call returned, response
    \* structures it received); for the database those writes are stuttering steps, so the state after the probe is the
    \* state its API calls alone produce
    [] e.op = "AliasProbe" ->
         IF e.t \notin DOMAIN cl.tables THEN Refuse(db, {"rnf"})
         ELSE LET tbl == cl.tables[e.t] IN
              Ok(WithTable(db, e.c, e.t, IF e.kind = "delete-output" THEN DelFrom(tbl, e.item) ELSE PutInto(tbl, AliasFinal(e))))

    [] OTHER -> Refuse(db, {"unknown-op"})

\* the state after e with outcome class oc
Step(db, e, oc) == IF oc = "ok" THEN Plan(db, e).next ELSE db

----------------------------------------------------------------------------
(* response predicates *)
OcOf(r) == IF r.err = "none" THEN "ok" ELSE IF r.err = "ccf" THEN "ccf" ELSE "err"

OptItemIs(opt, S) ==   \* opt = [some, i] against a set S of at most one item
  IF S = {} THEN ~opt.some ELSE opt.some /\ \E i \in S : SameItem(opt.i, i)

\* GetItem with a ProjectionExpression (top-level names e.proj): DynamoDB answers with the projected attributes only, the code
\* at the pinned commit ignores the projection, the properties speak of neither: the answer may be anything between the
\* projection of the stored item and the stored item itself - and, like every read, the call changes nothing
ProjItemIs(opt, S, proj) ==
  IF S = {} THEN ~opt.some
  ELSE LET full == CHOOSE i \in S : TRUE
           want == { proj[j] : j \in DOMAIN proj } \cap DOMAIN full
       IN IF ~opt.some THEN want = {}
          ELSE /\ DOMAIN opt.i \subseteq DOMAIN full
               /\ want \subseteq DOMAIN opt.i
               /\ \A k \in DOMAIN opt.i : SameValue(opt.i[k], full[k])
HasProj(e) == "proj" \in DOMAIN e /\ e.proj # <<>>

\* a sequence of items is an enumeration without repetition of the set S
EnumOf(seq, S) == /\ Len(seq) = Cardinality(S)
                  /\ \A it \in S : \E i \in DOMAIN seq : SameItem(seq[i], it)
                  /\ \A i \in DOMAIN seq : \E it \in S : SameItem(seq[i], it)

SortedBy(seq, attr, fwd) ==
  \A i \in 1..(Len(seq) - 1) :
     LET a == seq[i][attr]
         b == seq[i+1][attr]
     IN (a.t = b.t /\ a.t \in ScalarOrd) => (IF fwd THEN VLeq(a, b) ELSE VLeq(b, a))

\* unpaginated Query / Scan (no Limit, no ExclusiveStartKey)
MatchSetN(cl, tbl, q) == { it \in Target(tbl, q.index).view : ReadMatchN(cl, q, it) = {"T"} }
MatchSet(tbl, q) == { it \in Target(tbl, q.index).view : ReadMatchO(q, it) = {"T"} }
\* a read with a ProjectionExpression (top-level names q.proj, the generators always include the key attributes): the items come
\* back whole (the code at the pinned commit ignores the projection) or cut down to the projected attributes
Restrict(it, names) == [a \in (DOMAIN it) \cap names |-> it[a]]
ProjNames(q) == { q.proj[j] : j \in DOMAIN q.proj }
ReadAllOKN(cl, tbl, q, r) ==
  /\ \/ EnumOf(r.items, MatchSetN(cl, tbl, q))
     \/ HasProj(q) /\ EnumOf(r.items, { Restrict(it, ProjNames(q)) : it \in MatchSetN(cl, tbl, q) })
  /\ r.count = Len(r.items)
  /\ (q.kind = "query" /\ Target(tbl, q.index).range.some) => SortedBy(r.items, Target(tbl, q.index).range.n, q.fwd)
ReadAllOK(tbl, q, r) ==
  /\ EnumOf(r.items, MatchSet(tbl, q))
  /\ r.count = Len(r.items)
  /\ (q.kind = "query" /\ Target(tbl, q.index).range.some) => SortedBy(r.items, Target(tbl, q.index).range.n, q.fwd)

\* one page: at most Limit items, all of them matches, no repetition, in order
PageOK(tbl, q, r) ==
  /\ q.limit.some => Len(r.items) <= q.limit.n
  /\ \A i \in DOMAIN r.items : \E it \in MatchSet(tbl, q) : SameItem(r.items[i], it)
  /\ \A i, j \in DOMAIN r.items : i # j => ~KeyEq(tbl, r.items[i], r.items[j])
  /\ r.count = Len(r.items)
  /\ (q.kind = "query" /\ Target(tbl, q.index).range.some) => SortedBy(r.items, Target(tbl, q.index).range.n, q.fwd)
  /\ (~r.lek.some /\ NoEskOf(q)) => EnumOf(r.items, MatchSet(tbl, q))

SeqSame(a, b) == Len(a) = Len(b) /\ \A i \in DOMAIN a : SameItem(a[i], b[i])
RECURSIVE Concat(_)
Concat(pages) == IF pages = <<>> THEN <<>> ELSE Head(pages).items \o Concat(Tail(pages))
FilterSeq(seq, P(_)) == LET F[i \in 0..Len(seq)] == IF i = 0 THEN <<>>
                                                   ELSE IF P(seq[i]) THEN Append(F[i-1], seq[i]) ELSE F[i-1]
                        IN F[Len(seq)]

\* Walk response r = [err, full : resp, pages : <<resp>>, deleted : [some, k]]
WalkOK(tbl, q, r) ==
  /\ r.full.err = "none" /\ \A i \in DOMAIN r.pages : r.pages[i].err = "none"
  /\ ReadAllOK(tbl, q, r.full)
  /\ r.pages # <<>>
  /\ \A i \in DOMAIN r.pages : Len(r.pages[i].items) <= q.limit.n /\ r.pages[i].count = Len(r.pages[i].items)
  /\ \A i \in DOMAIN r.pages : (i < Len(r.pages)) = r.pages[i].lek.some     \* complete exactly when no key is returned
  /\ Len(r.pages) <= Cardinality(Target(tbl, q.index).view) + 2           \* finitely many pages
  /\ IF ~r.deleted.some
     THEN SeqSame(Concat(r.pages), r.full.items)
     ELSE LET first == r.pages[1].items
              rest  == Concat(Tail(r.pages))
              inFirst(it) == \E i \in DOMAIN first : KeyEq(tbl, first[i], it)
              keep(it) == ~inFirst(it) /\ ~KeyEq(tbl, it, r.deleted.k)
          IN SeqSame(rest, FilterSeq(r.full.items, keep))

\* DescribeTable
DescOK(tbl, d) ==
  /\ d.count = Cardinality(tbl.items)
  /\ d.hash = tbl.hash.n
  /\ d.range = (IF tbl.range.some THEN tbl.range.n ELSE "")
IdxDescOK(tbl, d) ==
  LET all == d.gsis \o d.lsis IN
  /\ { d.gsis[i].name : i \in DOMAIN d.gsis } = { n \in DOMAIN tbl.idx : tbl.idx[n].kind = "g" }
  /\ { d.lsis[i].name : i \in DOMAIN d.lsis } = { n \in DOMAIN tbl.idx : tbl.idx[n].kind = "l" }
  /\ Len(all) = Cardinality(DOMAIN tbl.idx)
  /\ \A i \in DOMAIN all : all[i].name \in DOMAIN tbl.idx =>
        LET ixd == tbl.idx[all[i].name] IN
        /\ all[i].hash = ixd.hash
        /\ all[i].range = (IF ixd.range.some THEN ixd.range.n ELSE "")
IdxCountOK(tbl, d) ==
  LET all == d.gsis \o d.lsis IN
  \A i \in DOMAIN all : all[i].name \in DOMAIN tbl.idx =>
     all[i].count.some /\ all[i].count.n = Cardinality(IndexView(tbl, all[i].name))
IdxProjOK(tbl, d) ==
  LET all == d.gsis \o d.lsis IN
  \A i \in DOMAIN all : all[i].name \in DOMAIN tbl.idx => all[i].proj = tbl.idx[all[i].name].proj

\* C20: only registrations made for exactly this table, kind and text may run; the one that decides must have run
FiredFails(db, e, r) ==
  IF "fired" \notin DOMAIN r THEN {} ELSE
  LET cl == db[e.c]
      allowed == (IF e.op \in {"PutItem", "UpdateItem", "DeleteItem"} THEN CondRegs(cl, e) ELSE {})
                 \cup (IF e.op = "UpdateItem" /\ HasText(e, "updtext") THEN RegsFor(cl, e.t, "update", e.updtext) ELSE {})
                 \cup (IF e.op \in {"Query", "Scan"} /\ e.kind = "query" /\ HasText(e, "kctext") THEN RegsFor(cl, e.t, "key", e.kctext) ELSE {})
                 \cup (IF e.op \in {"Query", "Scan"} /\ e.filter.some /\ HasText(e, "filtertext") THEN RegsFor(cl, e.t, "filter", e.filtertext) ELSE {})
      must == IF e.op \in {"PutItem", "UpdateItem", "DeleteItem"} /\ r.err \in {"none", "ccf"} THEN { g.id : g \in CondRegs(cl, e) } ELSE {}
  IN (IF { r.fired[i] : i \in DOMAIN r.fired } \subseteq { g.id : g \in allowed } THEN {} ELSE {"CrossFire"})
     \cup (IF must \subseteq { r.fired[i] : i \in DOMAIN r.fired } THEN {} ELSE {"NotDispatched"})

\* names of the parts of RespOK that fail; r is one SDK's normalised response
RespFails(db, e, r, sdk) ==
  LET pl == Plan(db, e)
      oc == OcOf(r)
      cl == db[e.c]
      tbl == cl.tables[e.t]
  IN
  FiredFails(db, e, r) \cup
  (IF r.err = "crash" /\ "crash" \notin pl.cls THEN {"NoCrash"} ELSE {})
  \cup (IF oc \notin pl.ocs /\ r.err # "crash" THEN {"Outcome"} ELSE {})
  \cup (IF oc = "err" /\ "err" \in pl.ocs /\ r.err # "crash" /\ r.err \notin pl.cls THEN {"ErrClass"} ELSE {})
  \cup (IF oc \notin pl.ocs THEN {}
        ELSE CASE e.op = "GetItem" /\ oc = "ok" ->
                    IF (IF HasProj(e) THEN ProjItemIs(r.item, Lookup(tbl, e.key), e.proj) ELSE OptItemIs(r.item, Lookup(tbl, e.key))) THEN {} ELSE {"Data"}
               [] e.op = "UpdateItem" /\ oc = "ok" ->
                    IF r.attrs.some /\ \E i \in Lookup(pl.next[e.c].tables[e.t], e.key) : SameItem(r.attrs.i, i) THEN {} ELSE {"Data"}
               [] e.op = "DeleteItem" /\ oc = "ok" /\ e.retold ->
                    IF OptItemIs(r.attrs, Lookup(tbl, e.key)) THEN {} ELSE {"Data"}
               [] e.op \in {"PutItem", "DeleteItem", "UpdateItem"} /\ oc = "ccf" /\ e.rvf /\ sdk = 2 ->   \* SDK v1.40 has no such request field
                    IF OptItemIs(r.ccfitem, Lookup(tbl, IF e.op = "PutItem" THEN e.item ELSE e.key)) THEN {} ELSE {"CcfItem"}
               [] e.op \in {"Query", "Scan"} /\ oc = "ok" ->
                    IF (IF ~e.limit.some /\ NoEskOf(e) THEN ReadAllOKN(cl, tbl, e, r) ELSE PageOK(tbl, e, r)) THEN {} ELSE {"Data"}
               [] e.op = "Walk" /\ oc = "ok" ->
                    IF WalkOK(tbl, e, r) THEN {} ELSE {"Data"}
               [] e.op = "DescribeTable" /\ oc = "ok" ->
                    (IF DescOK(tbl, r.desc) THEN {} ELSE {"Data"})
                    \cup (IF IdxDescOK(tbl, r.desc) THEN {} ELSE {"Data"})
                    \cup (IF IdxCountOK(tbl, r.desc) THEN {} ELSE {"IdxCount"})
                    \cup (IF IdxProjOK(tbl, r.desc) THEN {} ELSE {"Proj"})
               [] e.op = "BatchWrite" /\ oc = "ok" ->
                    LET want == IF cl.fail = "internal" THEN e.reqs ELSE <<>>
                    IN IF /\ Len(r.unproc) = Len(want)
                          /\ \A i \in DOMAIN want : \E j \in DOMAIN r.unproc :
                                /\ r.unproc[j].t = want[i].t /\ r.unproc[j].put.some = want[i].put.some
                                /\ IF want[i].put.some THEN SameItem(r.unproc[j].put.i, want[i].put.i)
                                   ELSE SameItem(r.unproc[j].del.k, want[i].del.k)
                       THEN {} ELSE {"Data"}
               [] e.op = "AliasProbe" /\ oc = "ok" ->
                    (IF OptItemIs(r.item, IF e.kind = "delete-output" THEN {} ELSE {AliasFinal(e)}) THEN {} ELSE {"Alias"})
                    \cup (IF e.kind \in {"stale-get", "stale-scan", "delete-output"} /\ ~OptItemIs(r.attrs, {e.item}) THEN {"Alias"} ELSE {})
                    \cup (IF e.kind = "query-input-struct" /\ r.count # 1 THEN {"Alias"} ELSE {})
               [] e.op = "BatchGet" /\ oc = "ok" ->
                    (IF \A i \in DOMAIN e.reqs :
                          LET rq == e.reqs[i]
                              tb == cl.tables[rq.t]
                              want == UNION { Lookup(tb, rq.keys[j]) : j \in DOMAIN rq.keys }
                              got == IF \E j \in DOMAIN r.responses : r.responses[j].t = rq.t
                                     THEN r.responses[CHOOSE j \in DOMAIN r.responses : r.responses[j].t = rq.t].items
                                     ELSE <<>>
                          IN EnumOf(got, want)
                     THEN {} ELSE {"Data"})
                    \cup (IF \A j \in DOMAIN r.unprockeys : r.unprockeys[j].keys = <<>> THEN {} ELSE {"Unprocessed"})
               [] OTHER -> {})

----------------------------------------------------------------------------
(* observations: o = [tables : <<[t, exists, desc, scan, gets, idx]>>] *)
ObsFails(db, c, o) ==
  UNION { LET ot == o.tables[i] IN
          IF ot.t \notin DOMAIN db[c].tables THEN (IF ot.exists THEN {"Catalog"} ELSE {})
          ELSE IF ~ot.exists THEN {"Catalog"}
          ELSE LET tbl == db[c].tables[ot.t] IN
               (IF ot.scan.err = "none" /\ EnumOf(ot.scan.items, tbl.items) THEN {} ELSE {"Base"})
               \cup (IF \A j \in DOMAIN ot.gets : ValidKeyArg(tbl, ot.gets[j].key) =>
                                  (ot.gets[j].r.err = "none" /\ OptItemIs(ot.gets[j].r.item, Lookup(tbl, ot.gets[j].key)))
                     THEN {} ELSE {"Base"})
               \cup (IF DescOK(tbl, ot.desc) THEN {} ELSE {"Desc"})
               \cup (IF IdxDescOK(tbl, ot.desc) THEN {} ELSE {"IdxDesc"})
               \cup (IF IdxCountOK(tbl, ot.desc) THEN {} ELSE {"IdxCount"})
               \cup (IF IdxProjOK(tbl, ot.desc) THEN {} ELSE {"Proj"})
               \cup (IF { ot.idx[j].name : j \in DOMAIN ot.idx } = DOMAIN tbl.idx THEN {} ELSE {"IdxDesc"})
               \cup UNION { LET oi == ot.idx[j] IN
                            IF oi.name \notin DOMAIN tbl.idx THEN {}
                            ELSE LET view == IndexView(tbl, oi.name)
                                     ixd == tbl.idx[oi.name]
                                 IN (IF oi.scan.err = "none" /\ EnumOf(oi.scan.items, view) THEN {} ELSE {"Index"})
                                    \cup (IF \A q \in DOMAIN oi.q :
                                               LET part == { it \in view : SameValue(it[ixd.hash], oi.q[q].hk) }
                                               IN /\ oi.q[q].fwd.err = "none" /\ oi.q[q].rev.err = "none"
                                                  /\ EnumOf(oi.q[q].fwd.items, part) /\ EnumOf(oi.q[q].rev.items, part)
                                                  /\ ixd.range.some => /\ SortedBy(oi.q[q].fwd.items, ixd.range.n, TRUE)
                                                                       /\ SortedBy(oi.q[q].rev.items, ixd.range.n, FALSE)
                                          THEN {} ELSE {"Index"})
                          : j \in DOMAIN ot.idx }
        : i \in DOMAIN o.tables }
=============================================================================
