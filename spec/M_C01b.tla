--------------------------- MODULE M_C01b ---------------------------
(* C01, hash+range table: keys over 2 partitions x 2 sort keys; attribute v in {absent,1,2}, nested m.a. *)
EXTENDS ModelLib
CONSTANTS HashBytes, RangeBytes

T1 == "tbl1"
K(a, b) == [h |-> S1(a), r |-> S1(b)]
Keys == { K(a, b) : a \in HashBytes, b \in RangeBytes }
VVals == { Num(1), Num(2) }
MV == Mk("M", [a |-> Num(1)])
Items == { k @@ m : k \in Keys, m \in { <<>> } \cup { [v |-> x] : x \in VVals } \cup { [m |-> MV] } \cup { [v |-> x, m |-> MV] : x \in VVals } }

Updates == {
  <<SetU("v", Val(":n")), One(":n", Num(1))>>,
  <<SetU("v", Val(":n")), One(":n", Num(2))>>,
  <<RemU("v"), <<>>>>,
  <<RemU("m"), <<>>>>,
  <<SetU("m", Val(":m")), One(":m", MV)>>,
  <<AddU("v", Val(":n")), One(":n", Num(1))>>,
  <<[NoUpd EXCEPT !.set = <<[p |-> <<[s |-> "n", n |-> "m", i |-> 0], [s |-> "n", n |-> "a", i |-> 0]>>, v |-> Val(":n")]>>], One(":n", Num(1))>>
}
SetupDef == << AddTable("c1", T1, "h", "r") >>
MenuDef == SetToSeq( { Put(T1, it) : it \in Items } \cup { Get(T1, k) : k \in Keys }
                     \cup { Del(T1, k, b) : k \in Keys, b \in BOOLEAN }
                     \cup { Upd(T1, k, u[1], u[2]) : k \in Keys, u \in Updates } )
BoundDef(d) == \A it \in d["c1"].tables[T1].items : "v" \in DOMAIN it => \E x \in VVals : SameValue(it.v, x)
=============================================================================
