--------------------------- MODULE M_LIFE ---------------------------
(* C18: table lifecycle and metadata over two clients and two table names: create (helper and full CreateTable
   with global / local indexes and both billing modes, valid and invalid configurations), delete, clear,
   add / delete index, describe, interleaved with data writes and reads, including operations on tables that
   do not exist and creation of tables that do.                                                           *)
EXTENDS ModelLib
CONSTANTS Slots, KeyBytes

Item(b) == [h |-> S1(b), r |-> S1(49), g |-> S1(112)]
Key1(b) == [h |-> S1(b)]
Key2(b) == [h |-> S1(b), r |-> S1(49)]
CT(c, t, billing, thr, attrs, rng, gsis, lsis) ==
  [op |-> "CreateTable", c |-> c, t |-> t, hash |-> [n |-> "h", ty |-> "S"], range |-> rng, billing |-> billing, thr |-> thr,
   attrs |-> attrs, gsis |-> gsis, lsis |-> lsis]
AD(n) == [n |-> n, ty |-> "S"]
NoRange == [some |-> FALSE, n |-> "", ty |-> ""]
RangeR == [some |-> TRUE, n |-> "r", ty |-> "S"]
Gsi(thr) == [name |-> "gix", hash |-> "g", range |-> [some |-> FALSE, n |-> ""], proj |-> "ALL", thr |-> thr]
\* a GLOBAL index on the table's own partition key (with another sort key): global it is, whatever it looks like
Hgx == [name |-> "hgx", hash |-> "h", range |-> [some |-> TRUE, n |-> "g"], proj |-> "ALL", thr |-> FALSE]
Lsi == [name |-> "lix", hash |-> "h", range |-> [some |-> TRUE, n |-> "g"], proj |-> "KEYS_ONLY"]

Creates(c, t) == {
  AddTable(c, t, "h", ""),
  CT(c, t, "PAY_PER_REQUEST", FALSE, <<AD("h"), AD("r"), AD("g")>>, RangeR, <<Gsi(FALSE), Hgx>>, <<Lsi>>),
  CT(c, t, "PROVISIONED", TRUE, <<AD("h"), AD("g")>>, NoRange, <<Gsi(TRUE)>>, <<>>)
}
BadCreates(c, t) == {
  CT(c, t, "PROVISIONED", FALSE, <<AD("h")>>, NoRange, <<>>, <<>>),                     \* no throughput
  CT(c, t, "PAY_PER_REQUEST", FALSE, <<AD("r")>>, NoRange, <<>>, <<>>),                 \* hash key not defined
  CT(c, t, "PAY_PER_REQUEST", FALSE, <<AD("h")>>, RangeR, <<>>, <<>>),                  \* range key not defined
  CT(c, t, "PAY_PER_REQUEST", FALSE, <<AD("h")>>, NoRange, <<Gsi(FALSE)>>, <<>>),        \* index key not defined
  CT(c, t, "PROVISIONED", TRUE, <<AD("h"), AD("g")>>, NoRange, <<Gsi(FALSE)>>, <<>>)    \* index without throughput
}
PerSlot(c, t) ==
  Creates(c, t) \cup BadCreates(c, t)
  \cup { DeleteTable(c, t), Clear(c, t), Describe(c, t), AddIndex(c, t, "aix", "g", ""), DeleteIndex(c, t, "aix"),
         ScanOp(c, t, NoIndex, NoFilter, <<>>, <<>>), ScanOp(c, t, Index("nope"), NoFilter, <<>>, <<>>) }
  \cup { [Put(t, Item(b)) EXCEPT !.c = c] : b \in KeyBytes }
  \cup { [Del(t, Key1(b), FALSE) EXCEPT !.c = c] : b \in KeyBytes } \cup { [Del(t, Key2(b), FALSE) EXCEPT !.c = c] : b \in KeyBytes }
  \cup { [Get(t, Key1(b)) EXCEPT !.c = c] : b \in KeyBytes } \cup { [Get(t, Key2(b)) EXCEPT !.c = c] : b \in KeyBytes }

SlotsA == { <<"c1", "tbl1">>, <<"c1", "tbl2">> }
SlotsB == { <<"c1", "tbl1">>, <<"c2", "tbl1">> }
Slots3 == { <<"c1", "tbl1">>, <<"c1", "tbl2">>, <<"c2", "tbl1">> }
Slots4 == Slots3 \cup { <<"c2", "tbl2">> }
SetupDef == <<>>
MenuDef == SetToSeq(UNION { PerSlot(s[1], s[2]) : s \in Slots })
BoundDef(d) == TRUE
NoDupIndex(d, e) == /\ ~(e.op = "AddIndex" /\ e.t \in DOMAIN d[e.c].tables /\ e.index \in DOMAIN d[e.c].tables[e.t].idx)
                    /\ (e.op \in {"GetItem", "DeleteItem"} /\ e.t \in DOMAIN d[e.c].tables) => ~OverKey(d[e.c].tables[e.t], e.key)
=============================================================================
