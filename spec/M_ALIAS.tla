--------------------------- MODULE M_ALIAS ---------------------------
(* C14: for every value shape of a universe (all ten types, nested, with boundary members) and every path by which
   memory crosses the API boundary - request structures of PutItem / UpdateItem (values and key) / BatchWriteItem, response
   structures of GetItem / Scan / Query / UpdateItem / DeleteItem, the item carried by a ConditionalCheckFailed error, a
   result held while a later write happens, the Query input struct - one probe scenario (see harness/h/alias.go).   *)
EXTENDS ModelLib
CONSTANT Depth
T1 == "tbl1"
SAB == Str(<<97, 98>>)
D0 == { SAB, Str(<<>>), Num(5), Bin(<<1, 2>>), Bool(TRUE), Bool(FALSE), NullV, Mk("SS", <<<<97>>, <<98>>>>), Mk("NS", <<Num(1).n, Num(2).n>>), Mk("BS", <<<<1>>, <<2, 3>>>>) }
D1 == D0 \cup { Mk("L", <<v>>) : v \in D0 } \cup { Mk("M", [k |-> v]) : v \in D0 }
         \cup { Mk("L", <<SAB, Num(1), Bin(<<9>>)>>), Mk("M", [a |-> SAB, b |-> Bin(<<9>>), c |-> Bool(TRUE)]) }
D2 == D1 \cup { Mk("L", <<Mk("M", [k |-> v])>>) : v \in {SAB, Bin(<<1>>), Bool(TRUE), Mk("SS", <<<<97>>>>)} }
         \cup { Mk("M", [k |-> Mk("L", <<v, v>>)]) : v \in {SAB, Bin(<<1>>), Bool(FALSE), Mk("BS", <<<<1>>>>)} }
Universe == IF Depth = 0 THEN D0 ELSE IF Depth = 1 THEN D1 ELSE D2
Kinds == {"put-input", "batchwrite-input", "get-output", "scan-output", "query-output", "update-input", "update-output", "delete-output",
          "stale-get", "stale-scan", "ccf-item", "query-input-struct", "upsert-input", "upsert-native"}
Key == [h |-> S1(107)]
Probe(kind, v) == [op |-> "AliasProbe", c |-> "c1", t |-> T1, kind |-> kind, item |-> Key @@ [val |-> v], item2 |-> Key @@ [val |-> Str(<<110, 101, 119>>)]]
Trace(kind, v) == << AddTable("c1", T1, "h", ""), Probe(kind, v), Get(T1, Key) >>
ASSUME \A k \in Kinds, v \in Universe : PrintT(ToJson([kind |-> "trace", ops |-> Trace(k, v)]))
SetupDef == <<>>
MenuDef == <<>>
BoundDef(d) == TRUE
=============================================================================
