--------------------------- MODULE M_NATIVE ---------------------------
(* C20: registrations of Go matchers / updaters (subsets of a menu that contains anagram pairs, the same text for
   another table and for another expression kind) x requests whose expression texts vary in surrounding and repeated
   whitespace, are anagrams of a registered text, or are simply different x native interpreter on / off.  Every callback
   gives the verdict OPPOSITE to what the built-in interpreter would say (or sets a marker attribute), so which one
   decided an operation is visible in its outcome as well as in the recorded set of callbacks that ran.        *)
EXTENDS ModelLib
CONSTANTS RegIds,         \* which registrations of the menu this configuration uses
          SwapFirst,      \* SetInterpreter(another instance) right after the tables are created: registrations and activation follow
          PreActivate      \* activate the native interpreter BEFORE the tables exist (the flag must reach tables created later)
TA == "tbl1"
TB == "tbl2"
B(str) == str
TxAB  == <<97,98,32,61,32,58,118>>                  \* "ab = :v"
TxBA  == <<98,97,32,61,32,58,118>>                  \* "ba = :v"      (anagram of the first)
TxAB2 == <<97,98,32,32,61,32,32,58,118>>            \* "ab  =  :v"    (repeated blanks)
TxAB3 == <<32,97,98,32,61,32,58,118,32>>            \* " ab = :v "    (surrounding blanks)
TxAB4 == <<97,98,10,61,9,58,118,13,10>>             \* "ab\n=\t:v\r\n"  (line breaks and tabs are blanks too)
UxAB3 == <<83,69,84,10,97,98,9,61,32,58,118>>       \* "SET\nab\t= :v"
TxABu == <<65,66,32,61,32,58,118>>                  \* "AB = :v"   another attribute: names are case-sensitive
TxOther == <<97,98,32,60,62,32,58,118>>             \* "ab <> :v"
KxH   == <<104,32,61,32,58,118>>                   \* "h = :v"       (as key condition and as filter)
UxAB  == <<83,69,84,32,97,98,32,61,32,58,118>>      \* "SET ab = :v"
UxAB2 == <<83,69,84,32,32,97,98,32,61,32,58,118>>   \* "SET  ab = :v"
UxBA  == <<83,69,84,32,98,97,32,61,32,58,118>>      \* "SET ba = :v"  (anagram)
CAB == Cmp("=", Path("ab"), Val(":v"))
CBA == Cmp("=", Path("ba"), Val(":v"))
COther == Cmp("<>", Path("ab"), Val(":v"))
CABu == Cmp("=", Path("AB"), Val(":v"))
VX == One(":v", S1(120))
Item == [h |-> S1(97), ab |-> S1(120), ba |-> S1(121)]
Key == [h |-> S1(97)]
Matcher(t, kind, text, id, verdict) == [op |-> "AddMatcher", c |-> "c1", t |-> t, mkind |-> kind, text |-> text, id |-> id, verdict |-> verdict]
\* the updater sets "mark" and deletes "ba" (an attribute the item has): what it does to the item IS the update
Updater(t, text, id) == [op |-> "AddUpdater", c |-> "c1", t |-> t, text |-> text, id |-> id, attr |-> "mark", val |-> Str(<<117>>), rem |-> "ba"]
AllRegs == { Matcher(TA, "conditional", TxAB, "m1", FALSE), Matcher(TA, "conditional", TxBA, "m2", TRUE), Matcher(TB, "conditional", TxAB, "m3", FALSE),
          Matcher(TA, "filter", TxAB, "m4", FALSE), Updater(TA, UxAB, "u1"), Matcher(TA, "key", KxH, "m5", FALSE) }
Regs == { g \in AllRegs : g.id \in RegIds }
PutT(t, ast, text) == PutC("c1", t, Item, Cond(ast), <<>>, VX, FALSE) @@ [condtext |-> text]
DelT(t, ast, text) == DelC("c1", t, Key, Cond(ast), <<>>, VX, FALSE, FALSE) @@ [condtext |-> text]
UpdT(t, u, text) == UpdC("c1", t, Key, u, NoCond, <<>>, VX, FALSE) @@ [updtext |-> text]
ScanT(t, ast, text) == ScanOp("c1", t, NoIndex, Cond(ast), <<>>, VX) @@ [filtertext |-> text]
CH == Cmp("=", Path("h"), Val(":v"))
VA == One(":v", S1(97))
QueryT(t) == QueryOp("c1", t, NoIndex, CH, NoFilter, <<>>, VA, TRUE) @@ [kctext |-> KxH]
ScanH(t) == ScanOp("c1", t, NoIndex, Cond(CH), <<>>, VA) @@ [filtertext |-> KxH]
\* reads THROUGH A SECONDARY INDEX of tbl1 (a GSI on the table's own partition key): registrations are per table, so they decide here too
GHX == Index("ghx")
ScanIx(ast, text, vals) == ScanOp("c1", TA, GHX, Cond(ast), <<>>, vals) @@ [filtertext |-> text]
QueryIx == QueryOp("c1", TA, GHX, CH, NoFilter, <<>>, VA, TRUE) @@ [kctext |-> KxH]
Requests ==
     { PutT(t, x[1], x[2]) : t \in {TA, TB}, x \in { <<CAB, TxAB>>, <<CBA, TxBA>>, <<CAB, TxAB2>>, <<CAB, TxAB3>>, <<CAB, TxAB4>>, <<CABu, TxABu>>, <<COther, TxOther>> } }
  \cup { DelT(TA, CAB, TxAB), DelT(TA, CBA, TxBA) }
  \cup { UpdT(t, SetU("ab", Val(":v")), x) : t \in {TA, TB}, x \in {UxAB, UxAB2, UxAB3} } \cup { UpdT(TA, SetU("ba", Val(":v")), UxBA) }
  \cup { ScanT(TA, CAB, TxAB), ScanT(TA, CBA, TxBA), ScanT(TB, CAB, TxAB), ScanT(TA, CAB, TxAB2), ScanT(TA, CAB, TxAB4) }
  \cup { QueryT(TA), QueryT(TB), ScanH(TA) }
  \cup { ScanIx(CAB, TxAB, VX), ScanIx(CAB, TxAB2, VX), ScanIx(CBA, TxBA, VX), ScanIx(CH, KxH, VA), QueryIx }
SetupDef == (IF PreActivate THEN << [op |-> "NativeActivate", c |-> "c1"] >> ELSE <<>>)
            \o << AddTable("c1", TA, "h", ""), AddIndex("c1", TA, "ghx", "h", ""), AddTable("c1", TB, "h", ""), Put(TA, Item), Put(TB, Item) >>
            \o (IF SwapFirst THEN << [op |-> "NativeSwap", c |-> "c1"] >> ELSE <<>>)
MenuDef == SetToSeq(Regs) \o SetToSeq(Requests) \o << [op |-> "NativeActivate", c |-> "c1"], Put(TA, Item), Put(TB, Item) >>
BoundDef(d) == TRUE
=============================================================================
