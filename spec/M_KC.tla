--------------------------- MODULE M_KC ---------------------------
(* C16, key conditions: valid and invalid KeyConditionExpression shapes on a hash+range table (base table and a
   global secondary index); plus BatchWriteItem sizes 0..27 and requests that are neither / both put and delete. *)
EXTENDS ModelLib
T1 == "tbl1"
K(a, b) == [h |-> S1(a), r |-> S1(b), g |-> S1(112), s |-> S1(b)]
HV == One(":a", S1(97))
AB == [n \in {":a", ":b"} |-> IF n = ":a" THEN S1(97) ELSE S1(49)]
ABC == [n \in {":a", ":b", ":c"} |-> IF n = ":a" THEN S1(97) ELSE IF n = ":b" THEN S1(49) ELSE S1(50)]
H == Path("h")
R == Path("r")
Q(kc, vals) == QueryOp("c1", T1, NoIndex, kc, NoFilter, <<>>, vals, TRUE)
QA(kc, names, vals) == QueryOp("c1", T1, NoIndex, kc, NoFilter, names, vals, TRUE)
QG(kc, vals) == QueryOp("c1", T1, Index("gsx"), kc, NoFilter, <<>>, vals, TRUE)
QH(kc, vals) == QueryOp("c1", T1, Index("gix"), kc, NoFilter, <<>>, vals, TRUE)      \* gix has a partition key only
GP == [AB EXCEPT ![":a"] = S1(112)]
Valid == {
  Q(Cmp("=", H, Val(":a")), HV),
  Q(And(Cmp("=", H, Val(":a")), Cmp("=", R, Val(":b"))), AB), Q(And(Cmp("=", H, Val(":a")), Cmp("<", R, Val(":b"))), AB),
  Q(And(Cmp("=", H, Val(":a")), Cmp(">=", R, Val(":b"))), AB), Q(And(Cmp("=", R, Val(":b")), Cmp("=", H, Val(":a"))), AB),
  Q(And(Cmp("=", H, Val(":a")), Between(R, Val(":b"), Val(":c"))), ABC),
  Q(And(Cmp("=", H, Val(":a")), Fn("begins_with", <<R, Val(":b")>>)), AB),
  QA(And(Cmp("=", PathA("#h"), Val(":a")), Cmp(">", PathA("#r"), Val(":b"))), [n \in {"#h", "#r"} |-> IF n = "#h" THEN "h" ELSE "r"], AB),
  QH(Cmp("=", Path("g"), Val(":a")), One(":a", S1(112))),
  QG(Cmp("=", Path("g"), Val(":a")), One(":a", S1(112))), QG(And(Cmp("=", Path("g"), Val(":a")), Cmp("=", Path("s"), Val(":b"))), [AB EXCEPT ![":a"] = S1(112)])
}
Invalid == {
  Q(Cmp(">", R, Val(":b")), One(":b", S1(48))),                                                \* no partition equality
  Q(Cmp("=", R, Val(":b")), One(":b", S1(49))),
  Q(Cmp("<", H, Val(":a")), One(":a", S1(122))),                                               \* partition key not by equality
  Q(Or(Cmp("=", H, Val(":a")), Cmp("=", R, Val(":b"))), AB),                                   \* OR
  Q(Not(Cmp("=", H, Val(":a"))), HV),
  Q(And(Cmp("=", H, Val(":a")), Cmp("<>", R, Val(":b"))), AB),                                 \* <> on the sort key
  Q(And(Cmp("=", H, Val(":a")), Cmp("=", Path("v"), Val(":b"))), AB),                          \* non-key attribute
  Q(And(Cmp("=", H, Val(":a")), Fn("contains", <<R, Val(":b")>>)), AB),
  Q(And(Cmp("=", H, Val(":a")), Fn("attribute_exists", <<R>>)), HV),
  Q(And(Cmp("=", H, Val(":a")), Fn("begins_with", <<R>>)), HV), Q(And(Cmp("=", H, Val(":a")), Fn("begins_with", <<>>)), HV),   \* wrong operand counts
  Q(And(Fn("begins_with", <<R>>), Cmp("=", H, Val(":a"))), HV), Q(And(Cmp("=", H, Val(":a")), Fn("begins_with", <<R, Val(":b"), Val(":c")>>)), ABC),
  Q(And(And(Cmp("=", H, Val(":a")), Cmp("=", R, Val(":b"))), Cmp("=", R, Val(":c"))), ABC),   \* two sort-key conditions
  Q(And(Cmp("=", H, Val(":a")), Cmp("=", H, Val(":b"))), AB),                                  \* partition key twice
  Q([k |-> "in", x |-> H, xs |-> <<Val(":a")>>], HV),
  Q(Between(H, Val(":a"), Val(":b")), AB),
  Q(Fn("begins_with", <<H, Val(":a")>>), HV),
  Q(Cmp("=", H, R), <<>>),                                                                     \* attribute = attribute
  QH(And(Cmp("=", Path("g"), Val(":a")), Cmp("=", R, Val(":b"))), GP),                         \* an index without sort key: the table's sort key,
  QH(And(Cmp("=", Path("g"), Val(":a")), Cmp(">", Path("s"), Val(":b"))), GP),                 \*   another index's sort key,
  QH(And(Cmp("=", Path("g"), Val(":a")), Cmp("=", H, Val(":b"))), [GP EXCEPT ![":b"] = S1(97)]),   \* the table's partition key
  QG(Cmp("=", H, Val(":a")), HV),                                                              \* table key on an index
  QG(And(Cmp("=", Path("g"), Val(":a")), Cmp("=", R, Val(":b"))), [AB EXCEPT ![":a"] = S1(112)])
}
\* the same questions asked of a FOLLOW-UP page: a request that carries an ExclusiveStartKey is checked like any other
EskB == [h |-> S1(97), r |-> S1(49)]
EskOf(q) == IF ~q.index.some THEN EskB ELSE IF q.index.n = "gsx" THEN EskB @@ [g |-> S1(112), s |-> S1(49)] ELSE EskB @@ [g |-> S1(112)]
WithEsk(q) == [q EXCEPT !.esk = [some |-> TRUE, k |-> EskOf(q)]]
Paged == { WithEsk(q) : q \in Valid \cup Invalid }
\* two faults in one request - a table that does not exist AND a placeholder no expression uses: whichever is reported, both clients
\* report the same
Faulty == { UpdC("c1", "tblx", K(97, 49), SetU("v", Val(":n")), NoCond, <<>>, [n \in {":n", ":unused"} |-> S1(49)], FALSE),
            UpdC("c1", "tblx", K(97, 49), SetU("v", Val(":n")), NoCond, One("#unused", "v"), One(":n", S1(49)), FALSE),
            PutC("c1", "tblx", K(97, 49), NoCond, <<>>, One(":unused", S1(49)), FALSE),
            DelC("c1", "tblx", [h |-> S1(97), r |-> S1(49)], NoCond, One("#unused", "v"), <<>>, FALSE, FALSE),
            QueryOp("c1", "tblx", NoIndex, Cmp("=", H, Val(":a")), NoFilter, <<>>, [n \in {":a", ":unused"} |-> S1(97)], TRUE),
            ScanOp("c1", "tblx", NoIndex, NoFilter, One("#unused", "v"), <<>>) }
KeyN(i) == [h |-> Str(<<107, 48 + (i \div 10), 48 + (i % 10)>>), r |-> S1(49)]
Req(kind, x) == [t |-> T1, put |-> [some |-> kind \in {"put", "both"}, i |-> IF kind \in {"put", "both"} THEN x ELSE <<>>],
                 del |-> [some |-> kind \in {"del", "both"}, k |-> IF kind \in {"del", "both"} THEN x ELSE <<>>]]
BW(reqs) == [op |-> "BatchWrite", c |-> "c1", reqs |-> reqs]
Batches == { BW([i \in 1..n |-> Req("put", KeyN(i))]) : n \in {1, 2, 24, 25, 26, 27} }   \* the empty batch is not generated (SDK v1 validates it client-side)
           \cup { BW([i \in 1..n |-> Req("del", KeyN(i))]) : n \in {25, 26} }
           \cup { BW(<<Req("neither", <<>>)>>), BW(<<Req("both", KeyN(1))>>), BW(<<Req("put", KeyN(1)), Req("neither", <<>>)>>),
                  BW(<<Req("put", KeyN(1)), Req("both", KeyN(2))>>) }
T2 == "tbl2"
Req2(t, x) == [t |-> t, put |-> [some |-> TRUE, i |-> x], del |-> [some |-> FALSE, k |-> <<>>]]
\* the 25-request limit counts the requests of ALL tables of the call
Spread == { BW([i \in 1..(2 * n) |-> Req2(IF i <= n THEN T1 ELSE T2, KeyN(i))]) : n \in {12, 13} }
SetupDef == << AddTable("c1", T1, "h", "r"), AddTable("c1", T2, "h", "r"), AddIndex("c1", T1, "gsx", "g", "s"), AddIndex("c1", T1, "gix", "g", ""),
               Put(T1, K(97, 49)), Put(T1, K(97, 50)), Put(T1, K(98, 49)) >>
MenuDef == SetToSeq(Valid) \o SetToSeq(Invalid) \o SetToSeq(Paged) \o SetToSeq(Faulty) \o SetToSeq(Batches) \o SetToSeq(Spread)
BoundDef(d) == Cardinality(d["c1"].tables[T1].items) <= 3 /\ Cardinality(d["c1"].tables[T2].items) = 0
=============================================================================
