--------------------------- MODULE M_KEYS ---------------------------
(* C13: primary keys over byte alphabets chosen to provoke collisions in any encoding that joins hash and range
   with a separator ("a.b"+"c" vs "a"+"b.c", "a."+"c" vs "a"+".c", prefixes, the empty-looking pieces), for string
   keys and for binary keys; every key is written with an attribute naming it, so an overwrite of one key by
   another is visible; malformed keys (missing / wrong-typed / extra-less) on all four operations; updates that
   name a key attribute.  At most MaxItems items are stored at a time.                                     *)
EXTENDS ModelLib
CONSTANTS KeyType, MaxItems

T1 == "tbl1"
HB == << <<97>>, <<97,46,98>>, <<97,46>>, <<98>> >>
RB == << <<99>>, <<98,46,99>>, <<46,99>> >>
V(bytes) == IF KeyType = "S" THEN Str(bytes) ELSE Bin(bytes)
K(i, j) == [h |-> V(HB[i]), r |-> V(RB[j])]
Keys == { K(i, j) : i \in DOMAIN HB, j \in DOMAIN RB }
Who(i, j) == Num(10 * i + j)
Items == { K(i, j) @@ [who |-> Who(i, j)] : i \in DOMAIN HB, j \in DOMAIN RB }
BadKeys == { <<>>, [h |-> V(<<97>>)], [r |-> V(<<99>>)], [h |-> Num(1), r |-> V(<<99>>)], [h |-> V(<<97>>), r |-> Num(1)],
             [h |-> (IF KeyType = "S" THEN Bin(<<97>>) ELSE Str(<<97>>)), r |-> V(<<99>>)] }
CT == [op |-> "CreateTable", c |-> "c1", t |-> T1, hash |-> [n |-> "h", ty |-> KeyType], range |-> [some |-> TRUE, n |-> "r", ty |-> KeyType],
       billing |-> "PAY_PER_REQUEST", thr |-> FALSE, attrs |-> <<[n |-> "h", ty |-> KeyType], [n |-> "r", ty |-> KeyType]>>, gsis |-> <<>>, lsis |-> <<>>]
SetupDef == << CT >>
MenuDef == SetToSeq( { Put(T1, it) : it \in Items } \cup { Get(T1, k) : k \in Keys } \cup { Del(T1, k, TRUE) : k \in Keys }
                     \cup { Upd(T1, k, SetU("v", Val(":n")), One(":n", Num(1))) : k \in Keys }
                     \* create-if-absent: the item an upsert creates carries its key attributes, also when a condition guards it
                     \cup { UpdC("c1", T1, K(i, i), SetU("v", Val(":n")), Cond(Fn("attribute_not_exists", <<Path("h")>>)), <<>>, One(":n", Num(1)), FALSE) : i \in 1..3 }
                     \* ... and one that would make the key of K(1,1) equal to the key of ANOTHER stored item, K(4,1): that item must survive
                     \cup { Upd(T1, K(1, 1), SetU("h", Val(":y")), One(":y", V(HB[4]))) }
                     \cup { Upd(T1, K(1, 1), SetU("h", Val(":x")), One(":x", V(<<122>>))), Upd(T1, K(1, 1), RemU("r"), <<>>),
                            Upd(T1, K(1, 1), SetU("r", Val(":x")), One(":x", V(<<122>>))) }
                     \cup { Put(T1, bk @@ [who |-> Num(0)]) : bk \in BadKeys } \cup { Get(T1, bk) : bk \in BadKeys }
                     \cup { Del(T1, bk, FALSE) : bk \in BadKeys } \cup { Upd(T1, bk, SetU("v", Val(":n")), One(":n", Num(1))) : bk \in BadKeys }
                     \cup { ScanOp("c1", T1, NoIndex, NoFilter, <<>>, <<>>) } )
BoundDef(d) == Cardinality(d["c1"].tables[T1].items) <= MaxItems
=============================================================================
