--------------------------- MODULE M_PH ---------------------------
(* C16, placeholders: for a few expressions, every subset of a family of #names / :values whose spellings are
   prefixes of one another is supplied; the request is valid iff exactly the used placeholders are supplied.
   `pk` lists the supplied keys with their byte spellings so that the judge can name the known deviation
   (an unused key that occurs as a substring of the expression text).                                   *)
EXTENDS MiniDyn, Json
Item0 == [a |-> Str(<<120>>), b |-> Str(<<121>>)]
VX == Str(<<120>>)
ValueKeys == << <<":ab", <<58,97,98>>>>, <<":a", <<58,97>>>>, <<":abc", <<58,97,98,99>>>>, <<":zz", <<58,122,122>>>> >>
NameKeys == << <<"#nn", <<35,110,110>>>>, <<"#n", <<35,110>>>>, <<"#x", <<35,120>>>> >>
Sub(keys) == SUBSET (DOMAIN keys)
Fn(keys, S, val(_)) == [k \in { keys[i][1] : i \in S } |-> val(k)]
Pk(keys, S) == { keys[i] : i \in S }
SetSeq(S) == LET SX == INSTANCE SequencesExt IN SX!SetToSeq(S)
C(op, text, names, values, pk) == [op |-> op, text |-> text, item |-> Item0, names |-> names, values |-> values, strict |-> TRUE, pk |-> SetSeq(pk)]
CV(x) == VX
CN(x) == "a"
Cases ==
     { C("MatchText", <<97,32,61,32,58,97,98>>, <<>>, Fn(ValueKeys, S, CV), Pk(ValueKeys, S)) : S \in Sub(ValueKeys) }                                   \* a = :ab
  \cup { C("MatchText", <<35,110,110,32,61,32,58,97,98>>, Fn(NameKeys, S, CN), [k \in {":ab"} |-> VX], Pk(NameKeys, S) \cup {ValueKeys[1]}) : S \in Sub(NameKeys) }   \* #nn = :ab
  \cup { C("ApplyText", <<83,69,84,32,98,32,61,32,58,97,98>>, <<>>, Fn(ValueKeys, S, CV), Pk(ValueKeys, S)) : S \in Sub(ValueKeys) }                    \* SET b = :ab
  \cup { C("ApplyText", <<83,69,84,32,35,110,110,32,61,32,58,97,98>>, Fn(NameKeys, S, CN), [k \in {":ab"} |-> VX], Pk(NameKeys, S) \cup {ValueKeys[1]}) : S \in Sub(NameKeys) }
\* malformed placeholder keys: "#" / ":" followed by something that is not only letters, digits and underscores.  The key is written
\* into the expression as it is, so that "it occurs in the text" cannot be what gets it rejected
BadNames == << <<"#n[0]", <<35,110,91,48,93>>>>, <<"#n^", <<35,110,94>>>>, <<"#n\\", <<35,110,92>>>>, <<"#n`", <<35,110,96>>>>, <<"#n-1", <<35,110,45,49>>>>,
              <<"#n.x", <<35,110,46,120>>>>, <<"#n x", <<35,110,32,120>>>>, <<"#n]", <<35,110,93>>>>, <<"#", <<35>>>> >>
BadValues == << <<":ab[0]", <<58,97,98,91,48,93>>>>, <<":ab^", <<58,97,98,94>>>>, <<":ab\\", <<58,97,98,92>>>>, <<":ab`", <<58,97,98,96>>>>, <<":ab-1", <<58,97,98,45,49>>>>,
               <<":ab.x", <<58,97,98,46,120>>>>, <<":ab x", <<58,97,98,32,120>>>>, <<":ab]", <<58,97,98,93>>>>, <<":", <<58>>>> >>
BadName(i) == BadNames[i]
BadValue(i) == BadValues[i]
Malformed ==
     { [op |-> "MatchText", text |-> BadName(i)[2] \o <<32,61,32,58,97,98>>, item |-> Item0, names |-> [k \in {BadName(i)[1]} |-> "a"], values |-> [k \in {":ab"} |-> VX],
        strict |-> TRUE, pk |-> <<BadName(i), ValueKeys[1]>>] : i \in DOMAIN BadNames }
  \cup { [op |-> "MatchText", text |-> <<97,32,61,32>> \o BadValue(i)[2], item |-> Item0, names |-> <<>>, values |-> [k \in {BadValue(i)[1]} |-> VX],
        strict |-> TRUE, pk |-> <<BadValue(i)>>] : i \in DOMAIN BadValues }
  \cup { [op |-> "ApplyText", text |-> <<83,69,84,32,98,32,61,32>> \o BadValue(i)[2], item |-> Item0, names |-> <<>>, values |-> [k \in {BadValue(i)[1]} |-> VX],
        strict |-> TRUE, pk |-> <<BadValue(i)>>] : i \in DOMAIN BadValues }
ASSUME \A c \in Cases \cup Malformed : PrintT(ToJson(c))
VARIABLE dummy
Init == dummy = 0
Next == UNCHANGED dummy
=============================================================================
