--------------------------- MODULE Trace ---------------------------
(* The trace judge: decides whether what the real clients answered is a behaviour of MiniDyn.

   Input: trace.ndjson, one event per line, recorded by the Go harness from clients built from /repo's
   working tree.  An event is the operation record `e` of MiniDyn!Plan plus
       r1, r2  the normalised responses of the SDK v1 and the SDK v2 client to the same request
       o1, o2  [some |-> BOOLEAN, cs |-> <<[c, tables]>>]: the full observation of each client
               (DescribeTable, Scan, GetItem of every known key, Scan and Query of every index)
               taken right after the call
   {"op":"Reset"} starts the next concatenated trace (fresh clients).

   Every step is deterministic, so TLC walks one path.  An event with a failing part is recorded in
   `fails` as [l, op, parts] and the judge resumes at the next Reset, so one run judges every trace.
   Acceptance = every line consumed (high-water mark in TLC register 1) and fails = <<>>; the driver
   reads both from the JUDGE line printed by the postcondition and maps parts to properties.        *)
EXTENDS MiniDyn, Json

Trace == ndJsonDeserialize("trace.ndjson")

VARIABLES l, db, fails
tvars == <<l, db, fails>>

RECURSIVE NextReset(_)
NextReset(j) == IF j > Len(Trace) THEN j ELSE IF Trace[j].op = "Reset" THEN j ELSE NextReset(j + 1)

OptSame(a, b) == a.some = b.some /\ (a.some => SameItem(a.i, b.i))
OptKeySame(a, b) == a.some = b.some /\ (a.some => SameItem(a.k, b.k))
RespSame(e, a, b) ==
  /\ a.err = b.err
  /\ CASE e.op \in {"Query", "Scan"} -> SeqSame(a.items, b.items) /\ a.count = b.count /\ OptKeySame(a.lek, b.lek)
       [] e.op = "Walk" -> /\ SeqSame(a.full.items, b.full.items) /\ Len(a.pages) = Len(b.pages)
                           /\ \A i \in DOMAIN a.pages : i \in DOMAIN b.pages =>
                                 SeqSame(a.pages[i].items, b.pages[i].items) /\ OptKeySame(a.pages[i].lek, b.pages[i].lek)
       [] e.op = "GetItem" -> OptSame(a.item, b.item)
       [] e.op \in {"UpdateItem", "DeleteItem", "PutItem"} -> OptSame(a.attrs, b.attrs) /\ OptSame(a.ccfitem, b.ccfitem)
       [] e.op \in {"DescribeTable", "CreateTable", "AddTable"} -> a.desc = b.desc
       [] e.op = "BatchWrite" -> Len(a.unproc) = Len(b.unproc)
       [] e.op = "BatchGet" -> Len(a.responses) = Len(b.responses) /\ Len(a.unprockeys) = Len(b.unprockeys)
       [] OTHER -> TRUE

Tag(prefix, S) == { prefix \o p : p \in S }

\* the state after event e given the (first client's) response
After(d, e) ==
  LET oc == OcOf(e.r1)
      d1 == Step(d, e, oc)
  IN IF e.op = "Walk" /\ oc = "ok" /\ e.r1.deleted.some /\ e.t \in DOMAIN d[e.c].tables
     THEN WithTable(d1, e.c, e.t, DelFrom(d1[e.c].tables[e.t], e.r1.deleted.k))
     ELSE d1

ObsAll(d, o) == IF ~o.some THEN {} ELSE UNION { ObsFails(d, o.cs[i].c, o.cs[i]) : i \in DOMAIN o.cs }

EventFails(d, e) ==
  LET f1 == RespFails(d, e, e.r1, 1)
      f2 == RespFails(d, e, e.r2, 2)
      hard == {"Outcome"}
  IN Tag("r1.", f1) \cup Tag("r2.", f2)
     \cup (IF RespSame(e, e.r1, e.r2) THEN {} ELSE {"Sdk.Equal"})
     \cup (IF "Outcome" \in f1 \/ "Outcome" \in f2 THEN {}
           ELSE Tag("o1.", ObsAll(After(d, e), e.o1)) \cup Tag("o2.", ObsAll(After(d, e), e.o2)))

TraceInit == l = 1 /\ db = InitDB /\ fails = <<>> /\ TLCSet(1, 1) /\ TLCSet(2, <<>>)

TraceNext ==
  /\ l <= Len(Trace)
  /\ LET e == Trace[l] IN
     IF e.op = "Reset"
     THEN db' = InitDB /\ l' = l + 1 /\ UNCHANGED fails
     ELSE LET f == EventFails(db, e) IN
          IF f = {}
          THEN db' = After(db, e) /\ l' = l + 1 /\ UNCHANGED fails
          ELSE /\ fails' = Append(fails, [l |-> l, op |-> e.op, oc |-> OcOf(e.r1), parts |-> f])
               /\ l' = NextReset(l + 1) /\ db' = InitDB
  /\ TLCSet(1, l') /\ TLCSet(2, fails')

TraceSpec == TraceInit /\ [][TraceNext]_tvars

Judged == /\ PrintT(ToJson([kind |-> "judge", hw |-> TLCGet(1), len |-> Len(Trace), fails |-> TLCGet(2)]))
          /\ TLCGet(1) = Len(Trace) + 1
=============================================================================
