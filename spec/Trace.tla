--------------------------- MODULE Trace ---------------------------
(* The trace judge: decides whether what the real clients answered is a behaviour of MiniDyn.

   Input: trace.ndjson, one event per line, recorded by the Go harness from clients built from /repo's
   working tree.  An event is the operation record `e` of MiniDyn!Plan plus
       r1, r2  the normalised responses of the SDK v1 and the SDK v2 client to the same request
       o1, o2  [some |-> BOOLEAN, cs |-> <<[c, tables]>>]: the full observation of each client
               (DescribeTable, Scan, GetItem of every known key, Scan and Query of every index)
               taken right after the call
   {"op":"Reset"} starts the next concatenated trace (fresh clients).

   Every step is deterministic, so TLC walks one path.  An event with a failing part is recorded in
   `fails` as [l, op, parts] and the judge resumes at the next Reset, so one run judges every trace.
   Acceptance = every line consumed (high-water mark in TLC register 1) and fails = <<>>; the driver
   reads both from the JUDGE line printed by the postcondition and maps parts to properties.        *)
EXTENDS MiniDyn, Grammar, Names, Json

Trace == ndJsonDeserialize("trace.ndjson")

VARIABLES l, db, fails
tvars == <<l, db, fails>>

RECURSIVE NextReset(_)
NextReset(j) == IF j > Len(Trace) THEN j ELSE IF Trace[j].op = "Reset" THEN j ELSE NextReset(j + 1)

OptSame(a, b) == a.some = b.some /\ (a.some => SameItem(a.i, b.i))
OptKeySame(a, b) == a.some = b.some /\ (a.some => SameItem(a.k, b.k))
RespSame(e, a, b) ==
  /\ a.err = b.err
  /\ CASE e.op \in {"Query", "Scan"} -> SeqSame(a.items, b.items) /\ a.count = b.count /\ OptKeySame(a.lek, b.lek)
       [] e.op = "Walk" -> /\ SeqSame(a.full.items, b.full.items) /\ Len(a.pages) = Len(b.pages)
                           /\ \A i \in DOMAIN a.pages : i \in DOMAIN b.pages =>
                                 SeqSame(a.pages[i].items, b.pages[i].items) /\ OptKeySame(a.pages[i].lek, b.pages[i].lek)
       [] e.op = "GetItem" -> OptSame(a.item, b.item)
       [] e.op \in {"UpdateItem", "DeleteItem", "PutItem"} -> OptSame(a.attrs, b.attrs)   \* not ccfitem: SDK v1.40 cannot request it
       [] e.op \in {"DescribeTable", "CreateTable", "AddTable"} -> a.desc = b.desc
       [] e.op = "BatchWrite" -> Len(a.unproc) = Len(b.unproc)
       [] e.op = "BatchGet" -> Len(a.responses) = Len(b.responses) /\ Len(a.unprockeys) = Len(b.unprockeys)
       [] OTHER -> TRUE

Tag(prefix, S) == { prefix \o p : p \in S }

----------------------------------------------------------------------------
(* expression lab: e.op = "Match" (a condition) or "Apply" (an update) with bindings; e.r maps a channel name
   ("lang" = interpreter.Language called directly, "v1" / "v2" = conditional PutItem / UpdateItem through the
   client, "scan" = the condition as a Scan filter) to [o |-> outcome, after |-> [some, i]].                *)
LabOps == {"Match", "Apply", "MatchText", "ApplyText"}
\* a path is "blocked" when it runs into a present value that is not a map (for .name) / not a list (for [n])
RECURSIVE BlockedIn(_,_)
BlockedIn(val, steps) ==
  IF steps = <<>> THEN FALSE
  ELSE LET st == Head(steps) IN
       IF st.s = "n" THEN (IF val.t # "M" THEN TRUE ELSE IF st.n \in DOMAIN val.m THEN BlockedIn(val.m[st.n], Tail(steps)) ELSE FALSE)
       ELSE (IF val.t # "L" THEN TRUE ELSE IF st.i + 1 \in DOMAIN val.l THEN BlockedIn(val.l[st.i + 1], Tail(steps)) ELSE FALSE)
OTy(o, item, names, values) ==
  LET x == Opd(o, item, names, values) IN
  IF o.k = "size" THEN "size" ELSE IF x.st = "ok" THEN x.v.t
  ELSE IF x.st = "missing" THEN (IF o.k = "path" /\ BlockedIn(AsMap(item), Resolve(o.p, names)) THEN "blocked" ELSE "absent")
  ELSE "undefined"
RECURSIVE CondSig(_,_,_,_)
CondSig(c, item, names, values) ==
  LET T(o) == OTy(o, item, names, values) IN
  CASE c.k = "cmp"     -> { <<"cmp", c.op, T(c.l), T(c.r)>> }
    [] c.k = "between" -> { <<"between", T(c.x), T(c.lo), T(c.hi)>> }
    [] c.k = "in"      -> { <<"in", T(c.x), IF \E i \in DOMAIN c.xs : T(c.xs[i]) = "blocked" THEN "blocked" ELSE "plain">> }
    [] c.k \in {"and", "or"} -> CondSig(c.l, item, names, values) \cup CondSig(c.r, item, names, values)
    [] c.k = "not"     -> CondSig(c.x, item, names, values)
    [] c.k = "fn"      -> { <<"fn", c.f>> \o [i \in DOMAIN c.args |-> T(c.args[i])] }
    [] OTHER           -> { <<"other">> }
PathTy(p, item, names) == IF ~ResolveOK(p, names) THEN "undefined"
                          ELSE LET g == GetPath(item, Resolve(p, names)) IN IF g.p THEN g.v.t ELSE "absent"
RhsTy(o, item, names, values) == LET r == Rhs(o, item, names, values) IN IF r.ok THEN r.v.t ELSE "invalid"
ParentTy(p, item, names) == IF Len(p) < 2 THEN "item" ELSE PathTy(SubSeq(p, 1, Len(p) - 1), item, names)
Depth(p) == IF Len(p) = 1 THEN "top" ELSE "nested"
RECURSIVE RhsReads(_)
RhsReads(o) == CASE o.k = "path" -> {o.p}
                 [] o.k \in {"plus", "minus", "lapp"} -> RhsReads(o.l) \cup RhsReads(o.r)
                 [] o.k = "ine" -> {o.p} \cup RhsReads(o.v)
                 [] OTHER -> {}
RECURSIVE HasEmpty(_)
HasEmpty(v) == CASE v.t = "L" -> v.l = <<>> \/ \E i \in DOMAIN v.l : HasEmpty(v.l[i])
                 [] v.t = "M" -> DOMAIN v.m = {} \/ \E k \in DOMAIN v.m : HasEmpty(v.m[k])
                 [] OTHER -> FALSE
ItemHasEmpty(it) == \E k \in DOMAIN it : HasEmpty(it[k])
\* signatures of an update case: one per action (clause, shape, typing), plus markers for the situations that
\* known findings are about
UpdSig(u, item, names, values) ==
     { <<"set", u.set[i].v.k, Depth(u.set[i].p), u.set[i].p[Len(u.set[i].p)].s, ParentTy(u.set[i].p, item, names),
         PathTy(u.set[i].p, item, names), RhsTy(u.set[i].v, item, names, values)>> : i \in DOMAIN u.set }
  \cup { <<"remove", Depth(u.remove[i]), u.remove[i][Len(u.remove[i])].s, ParentTy(u.remove[i], item, names), PathTy(u.remove[i], item, names)>> : i \in DOMAIN u.remove }
  \cup { <<"add", Depth(u.add[i].p), PathTy(u.add[i].p, item, names), RhsTy(u.add[i].v, item, names, values)>> : i \in DOMAIN u.add }
  \cup { <<"delete", Depth(u.del[i].p), PathTy(u.del[i].p, item, names), RhsTy(u.del[i].v, item, names, values)>> : i \in DOMAIN u.del }
  \cup (IF \E i \in DOMAIN u.set : \E t \in DOMAIN AllTargets(u) : \E r \in RhsReads(u.set[i].v) :
               ResolveOK(r, names) /\ ResolveOK(AllTargets(u)[t], names) /\ Overlap(Resolve(r, names), Resolve(AllTargets(u)[t], names))
               /\ Len(AllTargets(u)) > 1
         THEN { <<"rhs-reads-a-target">> } ELSE {})
  \cup (IF \E i \in DOMAIN u.set : \E r \in RhsReads(u.set[i].v) : ResolveOK(r, names) /\ BlockedIn(AsMap(item), Resolve(r, names))
         THEN { <<"rhs-path-blocked">> } ELSE {})
  \cup (LET res == ApplyU(u, item, names, values, {"pk"}) IN
        IF ItemHasEmpty(item) \/ (res.ok /\ ItemHasEmpty(res.item)) THEN { <<"empty-container">> } ELSE {})
ReservedNested(ts) == \E p \in DOMAIN ts : p > 1 /\ ts[p].t = "NAME" /\ TokAt(ts, p + 1) # "(" /\ IsReserved(ts[p].s) /\ ts[p - 1].t = "."
ReservedTop(ts) == \E p \in DOMAIN ts : ts[p].t = "NAME" /\ TokAt(ts, p + 1) # "(" /\ IsReserved(ts[p].s) /\ (p = 1 \/ ts[p - 1].t # ".")
TextMarks(e) == LET ts == Lex(e.text) IN
                (IF ReservedNested(ts) /\ ~ReservedTop(ts) THEN { <<"reserved", "nested-only">> } ELSE {})
                \cup (IF ReservedTop(ts) THEN { <<"reserved", "top">> } ELSE {})
PhMarks(e) ==
  IF "pk" \notin DOMAIN e THEN {} ELSE
  LET ts == Lex(e.text)
      cond == e.op = "MatchText"
      pr == IF cond THEN ParseCond(ts) ELSE ParseUpdate(ts)
      used == IF ~pr.ok THEN {} ELSE IF cond THEN CondNames(pr.ast) \cup CondVals(pr.ast) ELSE UpdNames(pr.ast) \cup UpdVals(pr.ast)
      supplied == (DOMAIN e.names) \cup (DOMAIN e.values)
      unused == supplied \ used
      \* a supplied key that is not "#" or ":" followed by letters, digits and underscores is malformed: that is never the known
      \* deviation about substrings, whatever else is true of it
      wellFormed(bs) == Len(bs) >= 2 /\ \A j \in 2..Len(bs) : IsWord(bs[j])
      masked == { k \in unused : \E i \in DOMAIN e.pk : e.pk[i][1] = k /\ IsSubB(e.pk[i][2], e.text) /\ wellFormed(e.pk[i][2]) }
  IN (IF \E i \in DOMAIN e.pk : ~wellFormed(e.pk[i][2]) THEN { <<"placeholders", "malformed-key">> } ELSE {})
     \cup (IF used \ supplied # {} THEN { <<"placeholders", "undefined">> } ELSE {})
     \cup (IF unused # {} /\ unused = masked THEN { <<"placeholders", "unused-but-substring-of-the-text">> } ELSE {})
     \cup (IF unused \ masked # {} THEN { <<"placeholders", "unused">> } ELSE {})
\* value placeholders standing where the grammar wants a name: after a dot (m.:v) and as first argument of if_not_exists;
\* VasN reads them as names, to NAME that known deviation (the repository's tests use ":hashA.:a")
VasN(ts) == [i \in DOMAIN ts |->
               IF ts[i].t = "VALUE" /\ (\/ i > 1 /\ (ts[i-1].t = "." \/ (i > 2 /\ ts[i-1].t = "(" /\ IsFn(ts, i - 2, "if_not_exists")))
                                        \/ i < Len(ts) /\ ts[i+1].t \in {".", "["})     \* a value placeholder as the head of a path (":obj.size")
               THEN [ts[i] EXCEPT !.t = "NAME"] ELSE ts[i]]
TextSig0(e) == LET ts == IF e.op = "MatchText" THEN Lex(e.text) ELSE StripVP(Lex(e.text))
                   vn == VasN(ts) IN
              IF e.op = "MatchText"
              THEN (IF ParseCond(ts).ok THEN CondSig(ParseCond(ts).ast, e.item, e.names, e.values)
                    ELSE IF vn # ts /\ ParseCond(vn).ok THEN { <<"not-a-sentence", "value-placeholder-as-name">> }
                    ELSE { <<"not-a-sentence">> })
              ELSE (IF ParseUpdate(ts).ok THEN UpdSig(ParseUpdate(ts).ast, e.item, e.names, e.values)
                    ELSE IF LaxUpdate(ts) THEN { <<"not-a-sentence", "update-operand-kinds">> }
                    ELSE IF vn # ts /\ (ParseUpdate(vn).ok \/ LaxUpdate(vn)) THEN { <<"not-a-sentence", "value-placeholder-as-name">> }
                    ELSE { <<"not-a-sentence">> })
TextSig(e) == TextSig0(e) \cup TextMarks(e) \cup PhMarks(e)
\* numbers that a float64 cannot carry (more than 15 significant digits), and decimal fractions in arithmetic
RECURSIVE NumeralsOf(_)
NumeralsOf(v) == CASE v.t = "N" -> {v.n}
                   [] v.t = "NS" -> SetOf(v.ns)
                   [] v.t = "L" -> UNION { NumeralsOf(v.l[i]) : i \in DOMAIN v.l }
                   [] v.t = "M" -> UNION { NumeralsOf(v.m[k]) : k \in DOMAIN v.m }
                   [] OTHER -> {}
ItemNumerals(it) == UNION { NumeralsOf(it[k]) : k \in DOMAIN it }
RECURSIVE DigitsInt(_), Pow5(_)
DigitsInt(d) == IF d = <<>> THEN 0 ELSE DigitsInt(SubSeq(d, 1, Len(d) - 1)) * 10 + d[Len(d)]
Pow5(k) == IF k = 0 THEN 1 ELSE 5 * Pow5(k - 1)
Dyadic(n) == LET a == DNorm(n) IN a.e >= 0 \/ (Len(a.d) <= 9 /\ -a.e <= 9 /\ DigitsInt(a.d) % Pow5(-a.e) = 0)
NumMarks(e) ==
  LET ns == ItemNumerals(e.item) \cup ItemNumerals(e.values)
      arith == e.op \in {"Apply", "ApplyText"}
      \* ... or an exact sum / difference of two of them that a float64 cannot carry (1e19 + 1)
      \* a float64 carries 15 significant decimal digits, and every integer up to 2^53 exactly
      p53 == [neg |-> FALSE, d |-> <<9,0,0,7,1,9,9,2,5,4,7,4,0,9,9,2>>, e |-> 0]
      long(n) == LET a == DNorm(n) IN Len(a.d) > 15 /\ (a.e < 0 \/ DLess(p53, [n EXCEPT !.neg = FALSE]))
      \* the exact result of a tree-shaped update case, when it has one: only ITS numerals count; otherwise (text cases, results the
      \* specification refuses) any sum or difference of two numerals of the case
      res == IF e.op = "Apply" THEN ApplyU(e.ast, e.item, e.names, e.values, {"pk"}) ELSE [ok |-> FALSE, item |-> <<>>]
      longResult == IF res.ok THEN \E n \in ItemNumerals(res.item) : long(n)
                    ELSE \E x, y \in ns : long(DAdd(x, y)) \/ long(DSub(x, y))
  IN (IF (\E n \in ns : long(n)) \/ (arith /\ longResult)
      THEN { <<"number", "more-than-15-digits">> } ELSE {})
     \* decimal fractions that binary floating point cannot carry exactly: d * 10^-k is exact iff 5^k divides d (1.25, 0.5, -1.5 are)
     \cup (IF arith /\ \E n \in ns : ~Dyadic(n) THEN { <<"number", "fraction-in-update">> } ELSE {})
LabSig1(e) == IF e.op \in {"MatchText", "ApplyText"} THEN TextSig(e) ELSE
             IF e.op = "Match" THEN CondSig(e.ast, e.item, e.names, e.values) \cup (IF ItemHasEmpty(e.item) THEN { <<"empty-container">> } ELSE {})
             ELSE UpdSig(e.ast, e.item, e.names, e.values)

\* REMOVE below a parent that is missing or is not the right kind of container: no-op or error (D.3)
SoftRemove(u, item, names) ==
  \E i \in DOMAIN u.remove : Len(u.remove[i]) > 1 /\
     LET pt == ParentTy(u.remove[i], item, names)
         last == u.remove[i][Len(u.remove[i])].s
     IN ~((pt = "M" /\ last \in {"n", "a"}) \/ (pt = "L" /\ last = "i"))

\* text-level cases (C09 / C16): the judge lexes and parses the bytes itself.  A sentence is judged like a tree case;
\* a non-sentence must be an error when e.strict (enumerated token strings), and must merely not crash otherwise
\* bytes that no token of the expression language contains: whatever else is uncertain, a string with one of them is
\* not a sentence and must be rejected (so such strings are judged strictly even among the random ones)
AlienByte(c) == ~(IsWord(c) \/ IsWS(c) \/ c \in {35, 58, 46, 44, 40, 41, 91, 93, 60, 62, 61, 43, 45})
HasAlien(bytes) == \E i \in DOMAIN bytes : AlienByte(bytes[i])
\* size(:v), the size of a value placeholder: DynamoDB's grammar says size(path), the code evaluates it, the properties are
\* silent.  In a condition the tokens  size ( :v )  are read as the operand :v and, if the string is then a sentence, only
\* totality is demanded (any outcome); if it is still not a sentence it must be rejected like any other.
RECURSIVE RewriteSV(_)
RewriteSV(ts) ==
  IF ts = <<>> THEN <<>>
  ELSE IF Len(ts) >= 4 /\ IsFn(ts, 1, "size") /\ Tok(ts, 3) = "VALUE" /\ Tok(ts, 4) = ")"
       THEN <<ts[3]>> \o RewriteSV(SubSeq(ts, 5, Len(ts)))
       ELSE <<ts[1]>> \o RewriteSV(Tail(ts))
TextFails(e) ==
  LET ts0 == Lex(e.text)
      cond == e.op = "MatchText"
      ts == IF cond THEN RewriteSV(ts0) ELSE StripVP(ts0)
      sizeOfValue == cond /\ ts # ts0
      valueParens == ~cond /\ ts # ts0
      strict == e.strict \/ HasAlien(e.text)
      pr == IF cond THEN ParseCond(ts) ELSE ParseUpdate(ts)
      usedN == IF ~pr.ok THEN {} ELSE IF cond THEN CondNames(pr.ast) ELSE UpdNames(pr.ast)
      usedV == IF ~pr.ok THEN {} ELSE IF cond THEN CondVals(pr.ast) ELSE UpdVals(pr.ast)
      placeholdersOK == usedN = DOMAIN e.names /\ usedV = DOMAIN e.values
      fnAsAttr == FnNameAsAttr(ts)
      reservedUse == ReservedUse(ts)
      oddCase == OddCaseKeyword(ts)
      allowedC == IF pr.ok /\ cond THEN CondOut(pr.ast, e.item, e.names, e.values) ELSE {}
      \* beyond 700 bytes the judge does not lex the string (its recursive lexer and parser cost minutes per string there): such
      \* strings, which only the random channel produces, are judged for totality - no crash, no hang, no panic other than the
      \* documented one - and the real code still has to digest all of their bytes
      long == Len(e.text) > 700
  IN
  UNION { LET out == e.r[ch]
              direct == ch = "lang"
              isErr == out.o = "E" \/ (out.o = "panic_syntax" /\ ~direct)
          IN IF out.o \in {"crash", "timeout"} \/ (out.o = "panic_syntax" /\ direct) THEN { ch \o ".NoCrash" }
             ELSE IF long THEN {}
             ELSE IF ~pr.ok THEN (IF strict /\ ~isErr THEN { ch \o ".Accepted" } ELSE {})
             ELSE IF ~placeholdersOK /\ ~direct THEN (IF strict /\ ~isErr THEN { ch \o ".Placeholders" } ELSE {})
             ELSE IF fnAsAttr THEN {}
             ELSE IF reservedUse THEN (IF strict /\ ~isErr THEN { ch \o ".Reserved" } ELSE {})
             ELSE IF oddCase /\ isErr THEN {}
             ELSE IF sizeOfValue THEN {}
             ELSE IF valueParens /\ isErr THEN {}
             ELSE IF ~cond /\ pr.rep /\ isErr THEN {}     \* repeated clause keyword: rejected, or applied as if merged (D.3)
             ELSE IF cond
             THEN LET allowed == allowedC IN
                  (IF (out.o \in {"T", "F"} /\ out.o \in allowed) \/ (isErr /\ "E" \in allowed) THEN {} ELSE { ch \o ".Outcome" })
                  \cup (IF out.after.some /\ ~SameItem(out.after.i, e.item) THEN { ch \o ".Modified" } ELSE {})
             ELSE LET res == ApplyU(pr.ast, e.item, e.names, e.values, {"pk"})
                      tg == AllTargets(pr.ast)
                      overlapping == \E i, j \in DOMAIN tg : i # j /\ ResolveOK(tg[i], e.names) /\ ResolveOK(tg[j], e.names)
                                                             /\ Overlap(Resolve(tg[i], e.names), Resolve(tg[j], e.names))
                  IN
                  IF overlapping THEN {}     \* error or last-wins (D.3): only totality is demanded
                  ELSE IF res.ok /\ (SoftRemove(pr.ast, e.item, e.names) \/ SoftDefault(pr.ast, e.item, e.names, e.values)) /\ isErr
                  THEN (IF out.after.some /\ ~SameItem(out.after.i, e.item) THEN { ch \o ".Modified" } ELSE {})
                  ELSE IF res.ok
                  THEN (IF out.o = "ok" THEN {} ELSE { ch \o ".Outcome" })
                       \cup (IF out.o = "ok" /\ ~(out.after.some /\ SameItem(out.after.i, res.item)) THEN { ch \o ".Result" } ELSE {})
                  ELSE (IF isErr THEN {} ELSE { ch \o ".Outcome" })
                       \cup (IF isErr /\ out.after.some /\ ~SameItem(out.after.i, e.item) THEN { ch \o ".Modified" } ELSE {})
        : ch \in DOMAIN e.r }

\* the harness printed a tree to text: re-parsing the text it actually sent must give the tree back
PrinterFails(e) ==
  IF e.op = "Match" THEN (IF ParseCond(Lex(e.text)).ok /\ ParseCond(Lex(e.text)).ast = e.ast THEN {} ELSE {"harness.Printer"})
  ELSE (IF ParseUpdate(Lex(e.text)).ok /\ ParseUpdate(Lex(e.text)).ast = e.ast THEN {} ELSE {"harness.Printer"})

LabSig(e) == LabSig1(e) \cup NumMarks(e)

LabFails(e) ==
  IF e.op \in {"MatchText", "ApplyText"} THEN TextFails(e) ELSE
  PrinterFails(e) \cup
  UNION { LET out == e.r[ch]
              direct == ch = "lang"
              isErr == out.o = "E" \/ (out.o = "panic_syntax" /\ ~direct)
          IN IF out.o \in {"crash", "timeout"} \/ (out.o = "panic_syntax" /\ direct) THEN { ch \o ".NoCrash" }
             ELSE IF e.op = "Match"
             THEN LET allowed == CondOut(e.ast, e.item, e.names, e.values) IN
                  (IF (out.o \in {"T", "F"} /\ out.o \in allowed) \/ (isErr /\ "E" \in allowed) THEN {} ELSE { ch \o ".Outcome" })
                  \cup (IF out.after.some /\ ~SameItem(out.after.i, e.item) THEN { ch \o ".Modified" } ELSE {})
             ELSE LET res == ApplyU(e.ast, e.item, e.names, e.values, {"pk"})
                      soft == SoftRemove(e.ast, e.item, e.names) \/ SoftDefault(e.ast, e.item, e.names, e.values)
                  IN
                  IF res.ok /\ soft /\ isErr
                  THEN (IF out.after.some /\ ~SameItem(out.after.i, e.item) THEN { ch \o ".Modified" } ELSE {})
                  ELSE IF res.ok
                  THEN (IF out.o = "ok" THEN {} ELSE { ch \o ".Outcome" })
                       \cup (IF out.o = "ok" /\ ~(out.after.some /\ SameItem(out.after.i, res.item)) THEN { ch \o ".Result" } ELSE {})
                  ELSE (IF isErr THEN {} ELSE { ch \o ".Outcome" })
                       \cup (IF isErr /\ out.after.some /\ ~SameItem(out.after.i, e.item) THEN { ch \o ".Modified" } ELSE {})
        : ch \in DOMAIN e.r }

\* the state after event e given the (first client's) response
After(d, e) ==
  LET oc == OcOf(e.r1)
      d1 == Step(d, e, oc)
  IN IF e.op = "Walk" /\ oc = "ok" /\ e.r1.deleted.some /\ e.t \in DOMAIN d[e.c].tables
     THEN WithTable(d1, e.c, e.t, DelFrom(d1[e.c].tables[e.t], e.r1.deleted.k))
     ELSE d1

ObsAll(d, o) == IF ~o.some THEN {} ELSE UNION { ObsFails(d, o.cs[i].c, o.cs[i]) : i \in DOMAIN o.cs }

OthersFails(d, e, o) ==
  IF ~o.some THEN {} ELSE
  LET tbl == d[e.c].tables[e.t]
      k == IF e.op = "PutItem" THEN e.item ELSE e.key
      rest == IF KeyTypeOK(tbl, k) THEN { it \in tbl.items : ~KeyEq(tbl, it, k) } ELSE tbl.items
  IN IF \A i \in DOMAIN o.cs : o.cs[i].c = e.c =>
          \A j \in DOMAIN o.cs[i].tables : o.cs[i].tables[j].t = e.t =>
             (o.cs[i].tables[j].scan.err = "none" /\ \A it \in rest : \E x \in DOMAIN o.cs[i].tables[j].scan.items : SameItem(o.cs[i].tables[j].scan.items[x], it))
     THEN {} ELSE {"Others"}
EventFailsR(d, e) ==
  LET f1 == RespFails(d, e, e.r1, 1)
      f2 == RespFails(d, e, e.r2, 2)
      \* a call the specification did not expect to fail but that both clients refused: whatever the reason, a refused call must
      \* leave the state as it was (C08), so the observation is judged against the unchanged state
      refused == OcOf(e.r1) \in {"err", "ccf"} /\ OcOf(e.r2) \in {"err", "ccf"}
      obs == IF "Outcome" \in f1 \/ "Outcome" \in f2
             THEN (IF refused THEN Tag("o1.", ObsAll(d, e.o1)) \cup Tag("o2.", ObsAll(d, e.o2)) ELSE {})
             ELSE Tag("o1.", ObsAll(After(d, e), e.o1)) \cup Tag("o2.", ObsAll(After(d, e), e.o2))
      \* a single-item write the specification expected to be refused but that went through: what became of its own item is unknown
      \* (often a recorded deviation), but every OTHER item of the table must still be there, unchanged (write locality on the real code)
      unexpectedOk == ("Outcome" \in f1 \/ "Outcome" \in f2) /\ ~refused /\ e.op \in {"PutItem", "UpdateItem", "DeleteItem"}
                      /\ e.t \in DOMAIN d[e.c].tables
      others == IF unexpectedOk THEN Tag("o1.", OthersFails(d, e, e.o1)) \cup Tag("o2.", OthersFails(d, e, e.o2)) ELSE {}
  IN [all  |-> Tag("r1.", f1) \cup Tag("r2.", f2) \cup (IF RespSame(e, e.r1, e.r2) THEN {} ELSE {"Sdk.Equal"}) \cup obs \cup others,
      \* the state after the event is still KNOWN although an answer was wrong: both clients took an allowed branch, the same one,
      \* nothing crashed, and either the full observation attached to the event agrees with the specification or the operation is
      \* a read (whose purity the next observation of the trace decides).  The judge then records the failure and goes on,
      \* so that a wrong answer (or a difference between the SDKs) does not hide what follows in the same trace.
      soft |-> /\ obs = {} /\ {"Outcome", "NoCrash"} \cap (f1 \cup f2) = {}
               /\ OcOf(e.r1) = OcOf(e.r2)
               /\ (e.o1.some \/ e.op \in {"GetItem", "Query", "Scan", "DescribeTable", "BatchGet"})]
EventFails(d, e) == EventFailsR(d, e).all

\* signatures of data-plane events that known findings are about
\* the known deviation of the key encoding: two DIFFERENT key tuples whose hash + "." + range byte strings coincide
KeyEnc(tbl, it) == IF tbl.range.some THEN Pay(it[tbl.hash.n]) \o <<46>> \o Pay(it[tbl.range.n]) ELSE Pay(it[tbl.hash.n])
Encodable(tbl, it) == KeyTypeOK(tbl, it) /\ tbl.hash.ty \in {"S"} /\ (tbl.range.some => tbl.range.ty \in {"S"})
KeysCollide(tbl, its) == \E x, y \in its : Encodable(tbl, x) /\ Encodable(tbl, y) /\ ~KeyEq(tbl, x, y) /\ KeyEnc(tbl, x) = KeyEnc(tbl, y)
StoredEmpty(d, e) == \E c \in DOMAIN d : \E tn \in DOMAIN d[c].tables : \E it \in d[c].tables[tn].items : ItemHasEmpty(it)
OpSig0(d, e) ==
  IF e.op \in {"PutItem", "GetItem", "UpdateItem", "DeleteItem"} /\ e.t \in DOMAIN d[e.c].tables
  THEN LET tbl == d[e.c].tables[e.t]
           k == IF e.op = "PutItem" THEN e.item ELSE e.key
       IN (IF KeysCollide(tbl, tbl.items \cup {k}) THEN { <<"key-encodings-collide">> } ELSE {})
          \cup (IF e.op = "UpdateItem" /\ \E i \in DOMAIN AllTargets(e.upd) :
                      ResolveOK(AllTargets(e.upd)[i], e.names) /\ Resolve(AllTargets(e.upd)[i], e.names)[1].n \in KeyAttrs(tbl)
                 THEN { <<"update-targets-key-attribute">> } ELSE {})
  ELSE IF e.op = "Scan" /\ e.t \in DOMAIN d[e.c].tables /\ KeysCollide(d[e.c].tables[e.t], d[e.c].tables[e.t].items)
  THEN { <<"key-encodings-collide">> }
  ELSE IF e.op = "Query" /\ e.t \in DOMAIN d[e.c].tables
  THEN LET tbl == d[e.c].tables[e.t]
           tg == Target(tbl, e.index)
       IN IF tg.ok /\ PlaceholdersOK(ReadUsedNames(e), ReadUsedVals(e), e.names, e.values) /\ ~ValidKeyCond(e.kc, e.names, tg.hash, tg.range)
          THEN { <<"keycond-invalid">> } ELSE {}
  ELSE {}

\* the two known deviations of number / binary typed keys: (1) numerals of equal value but different spelling are
\* different keys; (2) Query order and range conditions on an N / B sort key follow the key's text
NonStringKey(d, e) ==
  "t" \in DOMAIN e /\ e.t \in DOMAIN d[e.c].tables /\
  LET tbl == d[e.c].tables[e.t]
      req == IF e.op = "PutItem" THEN {e.item} ELSE IF e.op \in {"GetItem", "UpdateItem", "DeleteItem"} THEN {e.key} ELSE {}
      keyNums == UNION { { it[a].n : a \in { x \in KeyAttrs(tbl) : x \in DOMAIN it /\ it[x].t = "N" } } : it \in tbl.items \cup req }
      respelled == \E n1, n2 \in keyNums : DEq(n1, n2) /\ <<n1.neg, n1.d, n1.e>> # <<n2.neg, n2.d, n2.e>>
      ordered == e.op \in {"Query", "Walk"} /\ tbl.range.some /\ tbl.range.ty # "S"
  IN respelled \/ ordered
\* the same deviation seen by the observation attached to an event: the GetItem calls of an observation use every key the
\* trace has mentioned so far, stored or not
ObsCollide(d, e) ==
  "o1" \in DOMAIN e /\ e.o1.some /\
  LET a == After(d, e) IN
  \E i \in DOMAIN e.o1.cs : \E j \in DOMAIN e.o1.cs[i].tables :
     LET c == e.o1.cs[i].c
         ot == e.o1.cs[i].tables[j]
     IN c \in DOMAIN a /\ ot.t \in DOMAIN a[c].tables /\
        KeysCollide(a[c].tables[ot.t], a[c].tables[ot.t].items \cup { ot.gets[k].key : k \in DOMAIN ot.gets })
OpSig(d, e) == OpSig0(d, e) \cup (IF ObsCollide(d, e) THEN { <<"key-encodings-collide">> } ELSE {}) \cup (IF NonStringKey(d, e) THEN { <<"non-string-key">> } ELSE {}) \cup (IF StoredEmpty(d, e) \/ (e.op = "PutItem" /\ ItemHasEmpty(e.item)) THEN { <<"empty-container">> } ELSE {})

TraceInit == l = 1 /\ db = InitDB /\ fails = <<>> /\ TLCSet(1, 1) /\ TLCSet(2, <<>>)

TraceNext ==
  /\ l <= Len(Trace)
  /\ LET e == Trace[l] IN
     IF e.op = "Reset"
     THEN db' = InitDB /\ l' = l + 1 /\ UNCHANGED fails
     ELSE IF e.op \in LabOps
     THEN LET f == LabFails(e) IN
          /\ db' = db /\ l' = l + 1
          /\ fails' = IF f = {} THEN fails ELSE Append(fails, [l |-> l, op |-> e.op, oc |-> "lab", parts |-> f, sig |-> LabSig(e)])
     ELSE LET fr == EventFailsR(db, e)
              f == fr.all IN
          IF f = {}
          THEN db' = After(db, e) /\ l' = l + 1 /\ UNCHANGED fails
          ELSE /\ fails' = Append(fails, [l |-> l, op |-> e.op, oc |-> OcOf(e.r1), parts |-> f, sig |-> OpSig(db, e)])
               /\ IF fr.soft THEN l' = l + 1 /\ db' = After(db, e)
                             ELSE l' = NextReset(l + 1) /\ db' = InitDB
  /\ TLCSet(1, l') /\ TLCSet(2, fails')

TraceSpec == TraceInit /\ [][TraceNext]_tvars

Judged == /\ PrintT(ToJson([kind |-> "judge", hw |-> TLCGet(1), len |-> Len(Trace), fails |-> TLCGet(2)]))
          /\ TLCGet(1) = Len(Trace) + 1
=============================================================================
