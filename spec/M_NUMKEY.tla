--------------------------- MODULE M_NUMKEY ---------------------------
(* C12 / C02: number-typed and binary-typed keys.  Differently written numerals of equal value are ONE key; sort keys
   of type N order by numeric value and of type B by byte value, not by their text.                         *)
EXTENDS ModelLib
T1 == "tbl1"
Nm(neg, d, e, sp) == [t |-> "N", n |-> [neg |-> neg, d |-> d, e |-> e, sp |-> sp]]
CT(hty, rty) == [op |-> "CreateTable", c |-> "c1", t |-> T1, hash |-> [n |-> "h", ty |-> hty], range |-> [some |-> TRUE, n |-> "r", ty |-> rty],
       billing |-> "PAY_PER_REQUEST", thr |-> FALSE, attrs |-> <<[n |-> "h", ty |-> hty], [n |-> "r", ty |-> rty]>>, gsis |-> <<>>, lsis |-> <<>>]
HK == Cmp("=", Path("h"), Val(":h"))
Q(hv, fwd) == QueryOp("c1", T1, NoIndex, HK, NoFilter, <<>>, One(":h", hv), fwd)
QR(hv, op, rv) == QueryOp("c1", T1, NoIndex, And(HK, Cmp(op, Path("r"), Val(":r"))), NoFilter, <<>>, [n \in {":h", ":r"} |-> IF n = ":h" THEN hv ELSE rv], TRUE)
N9 == Nm(FALSE, <<9>>, 0, <<57>>)
N10 == Nm(FALSE, <<1,0>>, 0, <<49,48>>)
N10b == Nm(FALSE, <<1,0,0>>, -1, <<49,48,46,48>>)
N100 == Nm(FALSE, <<1>>, 2, <<49,101,50>>)
Nneg == Nm(TRUE, <<5>>, 0, <<45,53>>)
HS == S1(112)
NumOrder == << CT("S", "N"), Put(T1, [h |-> HS, r |-> N10, who |-> Num(10)]), Put(T1, [h |-> HS, r |-> N9, who |-> Num(9)]),
               Put(T1, [h |-> HS, r |-> N100, who |-> Num(100)]), Put(T1, [h |-> HS, r |-> Nneg, who |-> Num(5)]),
               Q(HS, TRUE), Q(HS, FALSE), QR(HS, ">", N9), QR(HS, "<", N10), QR(HS, "=", N10b),
               WalkOp(Q(HS, TRUE), 2, FALSE) >>
NumIdentity == << CT("N", "S"), Put(T1, [h |-> N10, r |-> S1(49), who |-> Num(1)]), Put(T1, [h |-> N10b, r |-> S1(49), who |-> Num(2)]),
                  Get(T1, [h |-> N10, r |-> S1(49)]), Get(T1, [h |-> N10b, r |-> S1(49)]), ScanOp("c1", T1, NoIndex, NoFilter, <<>>, <<>>),
                  Del(T1, [h |-> Nm(FALSE, <<1>>, 1, <<49,101,49>>), r |-> S1(49)], TRUE) >>
BinOrder == << CT("S", "B"), Put(T1, [h |-> HS, r |-> Bin(<<10>>), who |-> Num(10)]), Put(T1, [h |-> HS, r |-> Bin(<<9>>), who |-> Num(9)]),
               Put(T1, [h |-> HS, r |-> Bin(<<9, 1>>), who |-> Num(91)]), Put(T1, [h |-> HS, r |-> Bin(<<200>>), who |-> Num(200)]),
               Q(HS, TRUE), Q(HS, FALSE), QR(HS, ">", Bin(<<9>>)), QR(HS, "<=", Bin(<<10>>)) >>
Big(last) == Nm(FALSE, <<9,0,0,7,1,9,9,2,5,4,7,4,0,9,9,last>>, 0, <<57,48,48,55,49,57,57,50,53,52,55,52,48,57,57,48 + last>>)
\* distinct numeric keys stay distinct, whatever their magnitude (number keys, canonical spellings only)
BigKeys == << CT("N", "S"), Put(T1, [h |-> Big(2), r |-> S1(49), who |-> Num(2)]), Put(T1, [h |-> Big(3), r |-> S1(49), who |-> Num(3)]),
              Get(T1, [h |-> Big(2), r |-> S1(49)]), Get(T1, [h |-> Big(3), r |-> S1(49)]),
              Put(T1, [h |-> Num(7), r |-> S1(49), who |-> Num(7)]), Put(T1, [h |-> Num(70), r |-> S1(49), who |-> Num(70)]),
              Del(T1, [h |-> Big(3), r |-> S1(49)], TRUE), Get(T1, [h |-> Big(2), r |-> S1(49)]), ScanOp("c1", T1, NoIndex, NoFilter, <<>>, <<>>),
              Del(T1, [h |-> Num(7), r |-> S1(49)], TRUE), Get(T1, [h |-> Num(70), r |-> S1(49)]) >>
BinKeys == << CT("B", "B"), Put(T1, [h |-> Bin(<<1, 2>>), r |-> Bin(<<3>>), who |-> Num(1)]), Put(T1, [h |-> Bin(<<1>>), r |-> Bin(<<2, 3>>), who |-> Num(2)]),
              Put(T1, [h |-> Bin(<<12>>), r |-> Bin(<<3>>), who |-> Num(3)]),
              Get(T1, [h |-> Bin(<<1, 2>>), r |-> Bin(<<3>>)]), Get(T1, [h |-> Bin(<<1>>), r |-> Bin(<<2, 3>>)]), Get(T1, [h |-> Bin(<<12>>), r |-> Bin(<<3>>)]),
              ScanOp("c1", T1, NoIndex, NoFilter, <<>>, <<>>) >>
\* a number partition key is matched BY VALUE in a key condition, however the numeral of the request is written (the stored
\* keys are canonical here, so the known deviation about differently written STORED keys stays out of the way)
N7 == Num(7)
NumQuery == << CT("N", "S"), Put(T1, [h |-> N7, r |-> S1(49), who |-> Num(1)]), Put(T1, [h |-> N7, r |-> S1(50), who |-> Num(2)]),
               Put(T1, [h |-> Num(70), r |-> S1(49), who |-> Num(3)]),
               Q(Nm(FALSE, <<7,0>>, -1, <<55,46,48>>), TRUE), Q(Nm(FALSE, <<0,7>>, 0, <<48,55>>), FALSE), Q(Nm(FALSE, <<7>>, 0, <<55,101,48>>), TRUE),
               Q(Nm(FALSE, <<7>>, 0, <<48,46,55,101,49>>), TRUE), Q(Nm(FALSE, <<7,0,0>>, -1, <<55,48,46,48>>), TRUE), Q(N7, TRUE),
               QR(Nm(FALSE, <<7,0>>, -1, <<55,46,48>>), ">", S1(49)),
               QueryOp("c1", T1, NoIndex, HK, [some |-> TRUE, ast |-> Cmp("=", Path("who"), Val(":w"))], <<>>,
                       [n \in {":h", ":w"} |-> IF n = ":h" THEN Nm(FALSE, <<7,0>>, -1, <<55,46,48>>) ELSE Num(2)], TRUE) >>
Traces == { NumOrder, NumIdentity, BinOrder, BigKeys, BinKeys, NumQuery }
ASSUME \A t \in Traces : PrintT(ToJson([kind |-> "trace", ops |-> t]))
SetupDef == <<>>
MenuDef == <<>>
BoundDef(d) == TRUE
=============================================================================
