--------------------------- MODULE M_IDX ---------------------------
(* C03: histories of put / overwrite / update / delete / clear / create-index / delete-index over a table with
   up to two global secondary indexes: gix on (g) and gsx on (g, s).  Items may own none, one or both index
   key attributes; several items share an index key; indexes are created on populated tables.            *)
EXTENDS ModelLib
CONSTANTS KeyBytes, GBytes, IllTyped

T1 == "tbl1"
K(b) == [h |-> S1(b)]
Keys == { K(b) : b \in KeyBytes }
\* IllTyped: g may also hold a number - such an item is not eligible for the indexes (g is declared S): it is left out when an index
\* is created over it, refused once an index exists, and must be deletable / updatable like any other item
GV == { S1(b) : b \in GBytes } \cup (IF IllTyped THEN { Num(1) } ELSE {})
SV == { S1(49) }
Items == { k @@ g @@ s : k \in Keys, g \in { <<>> } \cup { [g |-> x] : x \in GV }, s \in { <<>> } \cup { [s |-> x] : x \in SV } }

Updates == { <<SetU("g", Val(":g")), One(":g", x)>> : x \in GV }
           \cup { <<RemU("g"), <<>>>>, <<RemU("s"), <<>>>>, <<SetU("s", Val(":s")), One(":s", S1(49))>> }

SetupDef == << AddTable("c1", T1, "h", "") >>
MenuDef == SetToSeq( { Put(T1, it) : it \in Items }
                     \cup { Del(T1, k, FALSE) : k \in Keys }
                     \cup { Upd(T1, k, u[1], u[2]) : k \in Keys, u \in Updates }
                     \cup { Clear("c1", T1), AddIndex("c1", T1, "gix", "g", ""), AddIndex("c1", T1, "gsx", "g", "s"),
                            DeleteIndex("c1", T1, "gix"), DeleteIndex("c1", T1, "gsx"), Describe("c1", T1) } )
\* creating an index that already exists is outside this model (C18)
BoundDef(d) == TRUE
NoDupIndex(d, e) == ~(e.op = "AddIndex" /\ e.index \in DOMAIN d[e.c].tables[e.t].idx)
=============================================================================
