--------------------------- MODULE M_FAIL2 ---------------------------
(* C08 on a table WITHOUT secondary indexes: update expressions of several actions of which a LATER one fails at evaluation
   (operand missing, operands of different types, ADD of a string to a number), after earlier actions that would have
   succeeded; in every state of two keys.  Nothing of a refused update may be stored.                        *)
EXTENDS ModelLib
CONSTANTS KeyBytes
T1 == "tbl1"
K(b) == [h |-> S1(b)]
Keys == { K(b) : b \in KeyBytes }
Items == { k @@ m : k \in Keys, m \in { [v |-> Num(1)], [v |-> Num(1), w |-> S1(120)] } }
Plus(l, r) == [k |-> "plus", l |-> l, r |-> r]
V2(n, s) == [x \in {":n", ":s"} |-> IF x = ":n" THEN Num(n) ELSE S1(s)]
Failing(k) == {
  Upd(T1, k, [NoUpd EXCEPT !.set = <<[p |-> P("v"), v |-> Val(":n")], [p |-> P("w"), v |-> Plus(Path("zz"), Val(":n"))]>>], One(":n", Num(2))),
  Upd(T1, k, [NoUpd EXCEPT !.set = <<[p |-> P("v"), v |-> Val(":n")], [p |-> P("u"), v |-> Plus(Path("v"), Val(":s"))]>>], V2(2, 115)),
  Upd(T1, k, [NoUpd EXCEPT !.remove = <<P("w")>>, !.set = <<[p |-> P("u"), v |-> Plus(Path("zz"), Val(":n"))]>>], One(":n", Num(2))),
  Upd(T1, k, [NoUpd EXCEPT !.set = <<[p |-> P("u"), v |-> Val(":n")]>>, !.add = <<[p |-> P("v"), v |-> Val(":s")]>>], V2(2, 115)),
  Upd(T1, k, [NoUpd EXCEPT !.set = <<[p |-> P("u"), v |-> Val(":n")], [p |-> P("t"), v |-> [k |-> "lapp", l |-> Path("v"), r |-> Val(":s")]]>>], V2(2, 115)),
  UpdC("c1", T1, k, [NoUpd EXCEPT !.set = <<[p |-> P("v"), v |-> Val(":n")], [p |-> P("u"), v |-> Val(":n")]>>],
       Cond(Fn("attribute_exists", <<Path("zz")>>)), <<>>, One(":n", Num(2)), FALSE) }
SetupDef == << AddTable("c1", T1, "h", "") >>
MenuDef == SetToSeq( { Put(T1, it) : it \in Items } \cup { Del(T1, k, FALSE) : k \in Keys } \cup UNION { Failing(k) : k \in Keys } )
BoundDef(d) == TRUE
=============================================================================
