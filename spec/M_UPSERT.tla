--------------------------- MODULE M_UPSERT ---------------------------
(* C01 / C13: UpdateItem on a key that holds no item ("upsert").  The new item is the key attributes plus the effect of the
   expression, and the expression - its right-hand sides and the condition - sees exactly that: the key attributes of the
   request on the update side, the EMPTY item on the condition side.  Same expressions on an existing item for contrast. *)
EXTENDS ModelLib
T1 == "tbl1"
K == [h |-> S1(97), r |-> S1(49)]
K2 == [h |-> S1(97), r |-> S1(50)]
U(u, vals) == Upd(T1, K, u, vals)
UC(u, c, vals) == UpdC("c1", T1, K, u, Cond(c), <<>>, vals, FALSE)
Ine(p, v) == [k |-> "ine", p |-> P(p), v |-> v]
Start == << AddTable("c1", T1, "h", "r"), Put(T1, K2 @@ [v |-> Num(1)]) >>
Upserts == {
  << U(SetU("o", Path("h")), <<>>), Get(T1, K) >>,                                         \* a right-hand side reads a key attribute
  << U([NoUpd EXCEPT !.set = <<[p |-> P("o"), v |-> Path("r")], [p |-> P("n"), v |-> Val(":n")]>>], One(":n", Num(1))), Get(T1, K) >>,
  << U(SetU("o", Ine("h", Val(":x"))), One(":x", S1(122))), Get(T1, K) >>,                  \* if_not_exists(key attribute, default): the attribute exists
  << U(SetU("o", Ine("zz", Path("r"))), <<>>), Get(T1, K) >>,
  << U(RemU("zz"), <<>>), Get(T1, K), Del(T1, K, TRUE) >>,                                  \* an expression without effect still creates the item
  << U([NoUpd EXCEPT !.add = <<[p |-> P("n"), v |-> Val(":n")]>>], One(":n", Num(2))), Get(T1, K) >>,
  << UC(SetU("o", Path("h")), Fn("attribute_not_exists", <<Path("h")>>), <<>>), Get(T1, K),
     UC(SetU("o", Path("r")), Fn("attribute_not_exists", <<Path("h")>>), <<>>), Get(T1, K) >>,   \* the condition sees no item, then the item
  << UC(SetU("o", Val(":x")), Fn("attribute_exists", <<Path("h")>>), One(":x", S1(122))), Get(T1, K) >>,   \* refused: nothing is created
  << U(SetU("o", Path("h")), <<>>), U(SetU("o", Path("r")), <<>>), Get(T1, K), ScanOp("c1", T1, NoIndex, NoFilter, <<>>, <<>>) >> }
\* DeleteItem with a ReturnValues value the operation does not have: refused or ignored, and a refusal deletes nothing
OddDelete(rv) == [Del(T1, K2, FALSE) EXCEPT !.retold = FALSE] @@ [retvals |-> rv]
OddDeletes == { << OddDelete(rv), Get(T1, K2), ScanOp("c1", T1, NoIndex, NoFilter, <<>>, <<>>) >> : rv \in {"ALL_NEW", "UPDATED_OLD", "UPDATED_NEW", "NONE", "ALL_OLD"} }
Traces == { Start \o t : t \in Upserts \cup OddDeletes }
ASSUME \A t \in Traces : PrintT(ToJson([kind |-> "trace", ops |-> t]))
SetupDef == <<>>
MenuDef == <<>>
BoundDef(d) == TRUE
=============================================================================
