--------------------------- MODULE TraceLin ---------------------------
(* Linearizability of a recorded concurrent history (C11).

   hist.ndjson: one line per completed call: [id, g (goroutine), inv, ret (stamps of one global counter taken before
   the call started and after it returned), e (operation record), r (normalised response of the one client)].
   TLC searches for a sequential order of ALL calls that respects real time (a call that returned before another was
   invoked comes first) and in which every response is one MiniDyn.tla allows in the state reached.  The invariant
   NotLinearized is violated exactly when such an order exists (the counterexample is the witness); if TLC exhausts
   the search without violating it, the history is not linearizable.  Depth-first search (StateDeque) finds a witness in
   about Len(H) states when one exists.                                                                          *)
EXTENDS MiniDyn, Json

H == ndJsonDeserialize("hist.ndjson")
Sdk == 2      \* which response rules apply (1: SDK v1, 2: SDK v2); only ReturnValuesOnConditionCheckFailure differs
VARIABLES db, done
lvars == <<db, done>>
All == DOMAIN H

AfterLin(d, h) == Step(d, h.e, OcOf(h.r))
\* the response parts that matter for atomicity: outcome class, error class, returned data
Acceptable(d, h) == RespFails(d, h.e, h.r, Sdk) \cap {"Outcome", "ErrClass", "Data", "NoCrash"} = {}
Minimal(i) == \A j \in All \ done : j # i => ~(H[j].ret < H[i].inv)

LInit == db = InitDB /\ done = {}
LNext == \E i \in All \ done :
           /\ Minimal(i)
           /\ Acceptable(db, H[i])
           /\ db' = AfterLin(db, H[i])
           /\ done' = done \cup {i}
LSpec == LInit /\ [][LNext]_lvars
NotLinearized == done # All
=============================================================================
