--------------------------- MODULE M_TOK ---------------------------
(* C09: every string of at most MaxLen tokens over a token alphabet (names, placeholders, comparators,
   parentheses, commas, keywords in upper and lower case, function names, path steps, an illegal character),
   for the condition grammar and for the update grammar.  TLC only spells the strings; whether a string is a
   sentence, and what it evaluates to, is decided by the judge (Grammar.tla + Expr.tla) from the bytes.
   Strings longer than FullLen are sampled (Sample of each length) with TLC's RandomSubset.               *)
EXTENDS MiniDyn, Json, Randomization
CONSTANTS Kind, FullLen, MaxLen, Sample

B(s) == s   \* readability: token spellings are byte sequences
CondAlphabet == <<
  <<97>>, <<35,110>>, <<58,118>>, <<61>>, <<60,62>>, <<40>>, <<41>>, <<44>>,
  <<65,78,68>>, <<79,82>>, <<78,79,84>>, <<66,69,84,87,69,69,78>>, <<73,78>>,
  <<97,110,100>>, <<110,111,116>>,
  <<97,116,116,114,105,98,117,116,101,95,101,120,105,115,116,115>>, <<115,105,122,101>>,
  <<46>>, <<91,48,93>>, <<36>> >>
UpdAlphabet == <<
  <<83,69,84>>, <<82,69,77,79,86,69>>, <<65,68,68>>, <<68,69,76,69,84,69>>, <<115,101,116>>,
  <<97>>, <<98>>, <<58,118>>, <<61>>, <<43>>, <<44>>, <<40>>, <<41>>,
  <<105,102,95,110,111,116,95,101,120,105,115,116,115>>, <<46>>, <<91,48,93>>, <<36>> >>
Alphabet == IF Kind = "cond" THEN CondAlphabet ELSE UpdAlphabet

RECURSIVE Join(_)
Join(toks) == IF Len(toks) = 0 THEN <<>> ELSE IF Len(toks) = 1 THEN Alphabet[toks[1]]
              ELSE Alphabet[toks[1]] \o <<32>> \o Join(Tail(toks))
Uses(toks, spelling) == \E i \in DOMAIN toks : Alphabet[toks[i]] = spelling

Item0 == [a |-> Str(<<120>>), b |-> Num(1)]
Case(toks) ==
  [op |-> IF Kind = "cond" THEN "MatchText" ELSE "ApplyText", text |-> Join(toks), item |-> Item0, strict |-> TRUE,
   names |-> IF Uses(toks, <<35,110>>) THEN [x \in {"#n"} |-> "a"] ELSE <<>>,
   values |-> IF Uses(toks, <<58,118>>) THEN [x \in {":v"} |-> IF Kind = "cond" THEN Str(<<120>>) ELSE Num(2)] ELSE <<>>]

Tuples(k) == [1..k -> DOMAIN Alphabet]
\* sampling: random NUMBERS below |Alphabet|^k, read as k digits in base |Alphabet| (sampling the set of tuples itself makes
\* TLC enumerate it: 3.2 million functions for k = 5)
NA == Len(Alphabet)
RECURSIVE Pow(_,_)
Pow(b, k) == IF k = 0 THEN 1 ELSE b * Pow(b, k - 1)
Decode(i, k) == [j \in 1..k |-> ((i \div Pow(NA, j - 1)) % NA) + 1]
Chosen(k) == IF k <= FullLen THEN Tuples(k) ELSE { Decode(i, k) : i \in RandomSubset(Sample, 0..(Pow(NA, k) - 1)) }
Cases == UNION { { Case(t) : t \in Chosen(k) } : k \in 1..MaxLen }
ASSUME \A c \in Cases : PrintT(ToJson(c))
VARIABLE dummy
Init == dummy = 0
Next == UNCHANGED dummy
=============================================================================
