--------------------------- MODULE M_KCSEQ ---------------------------
(* C16 / C02: the verdict on a KeyConditionExpression belongs to ONE request: the same expression text is legal or not depending
   on what its name placeholders stand for and on the table or index it is sent to.  Sequences of Queries that reuse one text
   with different meanings, in both orders (each on fresh clients).                                                *)
EXTENDS ModelLib
T1 == "tbl1"
T2 == "tbl2"
It(a, b) == [h |-> S1(a), r |-> S1(b), g |-> S1(112), s |-> S1(b), v |-> S1(a)]
NK(x) == [n \in {"#k"} |-> x]
NKS(x, y) == [n \in {"#k", "#s"} |-> IF n = "#k" THEN x ELSE y]
VA == One(":v", S1(97))
VAB == [n \in {":v", ":w"} |-> IF n = ":v" THEN S1(97) ELSE S1(48)]
QK(t, ix, names) == QueryOp("c1", t, ix, Cmp("=", PathA("#k"), Val(":v")), NoFilter, names, VA, TRUE)
QKS(t, names) == QueryOp("c1", t, NoIndex, And(Cmp("=", PathA("#k"), Val(":v")), Cmp(">", PathA("#s"), Val(":w"))), NoFilter, names, VAB, TRUE)
QG(t, ix) == QueryOp("c1", t, ix, Cmp("=", Path("g"), Val(":v")), NoFilter, <<>>, One(":v", S1(112)), TRUE)
Start == << AddTable("c1", T1, "h", "r"), AddTable("c1", T2, "g", ""), AddIndex("c1", T1, "gsx", "g", "s"),
            Put(T1, It(97, 49)), Put(T1, It(97, 50)), Put(T1, It(98, 49)), Put(T2, [g |-> S1(112), h |-> S1(97)]) >>
Seqs == {
  << QK(T1, NoIndex, NK("h")), QK(T1, NoIndex, NK("v")), QK(T1, NoIndex, NK("h")) >>,          \* legal, illegal (v is no key), legal
  << QK(T1, NoIndex, NK("v")), QK(T1, NoIndex, NK("h")), QK(T1, NoIndex, NK("r")) >>,          \* illegal, legal, illegal (sort key alone)
  << QKS(T1, NKS("h", "r")), QKS(T1, NKS("h", "v")), QKS(T1, NKS("r", "h")), QKS(T1, NKS("h", "r")) >>,
  << QG(T1, Index("gsx")), QG(T1, NoIndex), QG(T2, NoIndex), QG(T1, Index("gsx")) >>,           \* one text: index key, not a table key, key of another table
  << QG(T1, NoIndex), QG(T2, NoIndex), QG(T1, Index("gsx")) >>,
  << QK(T1, Index("gsx"), NK("g")), QK(T1, NoIndex, NK("g")), QK(T2, NoIndex, NK("g")), QK(T2, NoIndex, NK("h")) >> }
Traces == { Start \o t : t \in Seqs }
ASSUME \A t \in Traces : PrintT(ToJson([kind |-> "trace", ops |-> t]))
SetupDef == <<>>
MenuDef == <<>>
BoundDef(d) == TRUE
=============================================================================
