--------------------------- MODULE GenCore ---------------------------
(* Channel G, step 1: exhaustive enumeration of a bounded model of MiniDyn.

   A model supplies Setup (operations that build the initial catalogue), OpMenu (the finite menu of
   operations) and Bound (which states are inside the model).  TLC explores every reachable state and,
   through the action constraint Emit, prints one JSON line per generated transition - including
   transitions into states already seen - carrying the shortest operation path to the source state
   (BFS), the operation, and whether the specification state changes.  `path` is hidden by the VIEW,
   so the state space is that of `db` alone.  The Go harness replays every line into the real clients
   and Trace.tla judges what they answered.

   The invariants and action properties below are the design-level checks that are not true by
   construction (they relate Plan to independent definitions).                                         *)
EXTENDS MiniDyn, Json
SX == INSTANCE SequencesExt
SetToSeq(S) == SX!SetToSeq(S)

CONSTANTS Setup, OpMenu, Bound(_), Allowed(_,_), LastClassInView

VARIABLES db, path
gvars == <<db, path>>

RECURSIVE RunSetup(_,_)
RunSetup(d, i) == IF i > Len(Setup) THEN d ELSE RunSetup(Step(d, Setup[i], "ok"), i + 1)

ASSUME \A i \in DOMAIN Setup : Plan(RunSetup(InitDB, 1), Setup[i]).ocs # {} \* setup is well formed
ASSUME PrintT(ToJson([kind |-> "header", setup |-> Setup, menu |-> OpMenu]))

GInit == db = RunSetup(InitDB, 1) /\ path = <<>>
GNext == \E i \in DOMAIN OpMenu : \E oc \in Plan(db, OpMenu[i]).ocs :
            /\ Allowed(db, OpMenu[i])
            /\ db' = Step(db, OpMenu[i], oc)
            /\ Bound(db')
            /\ path' = Append(path, i)
GSpec == GInit /\ [][GNext]_gvars

Emit == PrintT(ToJson([kind |-> "edge", path |-> path, op |-> path'[Len(path')], ro |-> (db' = db)]))
\* Two implementation states may hide behind one specification state (stale internal bookkeeping after a clear, a delete,
\* an index operation ...).  With LastClassInView, TLC distinguishes states by the coarse class of the operation that led to
\* them, so every (state, operation) edge is also generated right after a clear, right after a delete, etc.
ClassOf(e) == CASE e.op = "ClearTable" -> "clear" [] e.op = "DeleteItem" -> "delete" [] e.op \in {"AddIndex", "DeleteIndex"} -> "index"
                [] e.op = "UpdateItem" -> "update" [] e.op = "PutItem" -> "put" [] e.op \in {"DeleteTable", "AddTable", "CreateTable"} -> "table"
                [] e.op = "Fail" -> "fail" [] OTHER -> "other"
View == IF LastClassInView THEN <<db, IF path = <<>> THEN "none" ELSE ClassOf(OpMenu[path[Len(path)]])>> ELSE <<db, "-">>

LastOp == OpMenu[path[Len(path)]]
AnyOp(d, e) == TRUE

----------------------------------------------------------------------------
(* design-level properties *)
AllTables(d) == { <<c, t>> : c \in Clients, t \in UNION { DOMAIN d[c2].tables : c2 \in Clients } }
TablesOf(d) == { ct \in AllTables(d) : ct[2] \in DOMAIN d[ct[1]].tables }
Tbl(d, ct) == d[ct[1]].tables[ct[2]]

\* two stored items never share a primary key; every stored item carries well-typed keys
KeysUnique == \A ct \in TablesOf(db) : \A i, j \in Tbl(db, ct).items : KeyEq(Tbl(db, ct), i, j) => i = j
KeysTyped  == \A ct \in TablesOf(db) : \A i \in Tbl(db, ct).items :
                 KeyTypeOK(Tbl(db, ct), i) /\ IdxKeysTyped(Tbl(db, ct), i)
\* the outcome of every menu operation is determined (generators stay away from lenient positions)
Determined == \A i \in DOMAIN OpMenu : Allowed(db, OpMenu[i]) => Cardinality(Plan(db, OpMenu[i]).ocs) = 1
\* index views are sub-collections of the table
ViewsInside == \A ct \in TablesOf(db) : \A ix \in DOMAIN Tbl(db, ct).idx : IndexView(Tbl(db, ct), ix) \subseteq Tbl(db, ct).items

\* a single-item write changes at most the item under its own key, in its own table, in its own client
SingleWrites == {"PutItem", "UpdateItem", "DeleteItem"}
WriteLocality ==
  [][ LET e == OpMenu[path'[Len(path')]] IN
      e.op \in SingleWrites =>
        /\ \A c \in Clients : c # e.c => db'[c] = db[c]
        /\ DOMAIN db'[e.c].tables = DOMAIN db[e.c].tables
        /\ \A t \in DOMAIN db[e.c].tables : t # e.t => db'[e.c].tables[t] = db[e.c].tables[t]
        /\ e.t \in DOMAIN db[e.c].tables =>
             LET old == db[e.c].tables[e.t]
                 new == db'[e.c].tables[e.t]
                 k   == IF e.op = "PutItem" THEN e.item ELSE e.key
             IN IF ~KeyTypeOK(old, k) THEN new = old
                ELSE /\ { i \in old.items : ~KeyEq(old, i, k) } = { i \in new.items : ~KeyEq(new, i, k) }
                     /\ new.idx = old.idx /\ new.defs = old.defs
    ]_gvars
\* a read never changes the state; a failure never changes the state (C08, C15 at design level)
ReadsPure ==
  [][ OpMenu[path'[Len(path')]].op \in {"GetItem", "Query", "Scan", "DescribeTable", "BatchGet"} => db' = db ]_gvars
FailingClientFrozen ==
  [][ LET e == OpMenu[path'[Len(path')]] IN
      (e.op \in DataOps /\ db[e.c].fail = "deprecated") => db' = db ]_gvars
=============================================================================
