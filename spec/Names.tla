---- MODULE Names ----
\* placeholder: the driver generates this module per trace (lib/pipeline.py write_name_table)
NameTableDef == << >>
====
