--------------------------- MODULE M_UPD ---------------------------
(* C07: enumeration of update-expression cases.  Every action shape - SET with values, paths, + and -,
   if_not_exists, list_append, nested and indexed targets; REMOVE of attributes, map members, list elements;
   ADD to numbers and sets; DELETE from sets; several clauses together - under every typing of the targeted
   attribute (each of the ten types or absent).  Every item also carries bystander attributes of several types
   so that "everything not targeted keeps its value" is decided on each case (whole-item comparison).     *)
EXTENDS MiniDyn, Json
CONSTANT Depth

N_(n) == [s |-> "n", n |-> n, i |-> 0]
A_(n) == [s |-> "a", n |-> n, i |-> 0]
I_(i) == [s |-> "i", n |-> "", i |-> i]
P(n) == <<N_(n)>>
Path(n) == [k |-> "path", p |-> P(n)]
PathOf(steps) == [k |-> "path", p |-> steps]
Val(n) == [k |-> "val", n |-> n]
NoUpd == [set |-> <<>>, remove |-> <<>>, add |-> <<>>, del |-> <<>>]
SetU(p, rhs) == [NoUpd EXCEPT !.set = <<[p |-> p, v |-> rhs]>>]
RemU(ps) == [NoUpd EXCEPT !.remove = ps]
AddU(p, rhs) == [NoUpd EXCEPT !.add = <<[p |-> p, v |-> rhs]>>]
DelU(p, rhs) == [NoUpd EXCEPT !.del = <<[p |-> p, v |-> rhs]>>]
Case(ast, item, names, values) == [op |-> "Apply", ast |-> ast, item |-> item, names |-> names, values |-> values]
V1(v) == [x \in {":v"} |-> v]
V2(v, w) == [x \in {":v", ":w"} |-> IF x = ":v" THEN v ELSE w]

SAB == Str(<<97, 98>>)
LV == Mk("L", <<SAB, Num(1), Mk("L", <<Num(2)>>)>>)
MV == Mk("M", [x |-> SAB, y |-> Mk("M", [z |-> Num(1)])])
SSV == Mk("SS", <<<<97, 98>>, <<99>>>>)
NSV == Mk("NS", <<Num(1).n, Num(2).n>>)
BSV == Mk("BS", <<<<1>>, <<2>>>>)
Reps == { SAB, Num(1), Num(2), Bin(<<1>>), Bool(TRUE), Bool(FALSE), NullV, LV, MV, SSV, NSV, BSV }
\* bystanders of several types: they must come back unchanged from every update
Keep == [ks |-> Str(<<122>>), kn |-> Num(7), km |-> Mk("M", [q |-> Num(1)]), kl |-> Mk("L", <<Str(<<122>>)>>), kb |-> Bool(FALSE), knull |-> NullV,
         kss |-> Mk("SS", <<<<122>>>>), kbin |-> Bin(<<>>), kstr |-> Str(<<>>)]
ItemsA == { Keep } \cup { Keep @@ [a |-> v] : v \in Reps }
WithB == { it @@ [b |-> Num(2)] : it \in ItemsA }

SetCases ==
     { Case(SetU(P("a"), Val(":v")), it, <<>>, V1(v)) : it \in ItemsA, v \in { SAB, Num(1), LV, MV, NullV, Bool(FALSE), SSV, Bin(<<>>), Str(<<>>) } }
  \cup { Case(SetU(P("a"), Path(o)), it, <<>>, <<>>) : it \in ItemsA, o \in {"ks", "km", "zz", "a"} }
  \cup { Case(SetU(P("a"), [k |-> kk, l |-> Path("a"), r |-> Val(":v")]), it, <<>>, V1(v)) : kk \in {"plus", "minus"}, it \in ItemsA, v \in { Num(1), SAB } }
  \cup { Case(SetU(P("a"), [k |-> "plus", l |-> Val(":v"), r |-> Path("kn")]), it, <<>>, V1(Num(2))) : it \in ItemsA }
  \cup { Case(SetU(P("a"), [k |-> "ine", p |-> P(o), v |-> Val(":v")]), it, <<>>, V1(SAB)) : it \in ItemsA, o \in {"a", "zz", "knull"} }
  \cup { Case(SetU(P("a"), [k |-> "lapp", l |-> Path("a"), r |-> Val(":v")]), it, <<>>, V1(v)) : it \in ItemsA, v \in { LV, SAB } }
  \cup { Case(SetU(P("a"), [k |-> "lapp", l |-> Val(":v"), r |-> Path("a")]), it, <<>>, V1(LV)) : it \in ItemsA }
  \cup { Case(SetU(<<A_("#n")>>, Val(":v")), it, [x \in {"#n"} |-> "a"], V1(Num(1))) : it \in ItemsA }
NestedTargets == { <<N_("a"), N_("x")>>, <<N_("a"), N_("y"), N_("z")>>, <<N_("a"), N_("q")>>, <<N_("a"), N_("q"), N_("r")>>,
                   <<N_("a"), I_(0)>>, <<N_("a"), I_(2), I_(0)>>, <<N_("a"), I_(5)>>, <<N_("a"), I_(1), I_(0)>>, <<N_("zz"), N_("x")>>, <<N_("zz"), I_(0)>> }
NestedCases ==
     { Case(SetU(p, Val(":v")), it, <<>>, V1(Num(2))) : p \in NestedTargets, it \in ItemsA }
  \cup { Case(RemU(<<p>>), it, <<>>, <<>>) : p \in NestedTargets, it \in ItemsA }
  \cup { Case(RemU(<<<<N_("a"), I_(0)>>, <<N_("a"), I_(1)>>>>), it, <<>>, <<>>) : it \in ItemsA }
  \cup { Case(RemU(<<<<N_("a"), I_(1)>>, <<N_("a"), I_(0)>>>>), it, <<>>, <<>>) : it \in ItemsA }
  \cup { Case(RemU(<<<<N_("a"), I_(0)>>, <<N_("a"), I_(2)>>>>), it, <<>>, <<>>) : it \in ItemsA }
RemoveCases ==
     { Case(RemU(<<P("a")>>), it, <<>>, <<>>) : it \in ItemsA }
  \cup { Case(RemU(<<P("a"), P("ks")>>), it, <<>>, <<>>) : it \in ItemsA }
  \cup { Case(RemU(<<P("zz")>>), it, <<>>, <<>>) : it \in ItemsA }
\* ADD to a list is a lenient position (D.3) and is not generated
NotList == { x \in ItemsA : "a" \in DOMAIN x => x.a.t # "L" }
AddCases ==
     { Case(AddU(P("a"), Val(":v")), it, <<>>, V1(v)) : it \in NotList, v \in { Num(1), SAB, Mk("SS", <<<<99>>, <<100>>>>), Mk("NS", <<Num(2).n, Num(3).n>>), Mk("BS", <<<<2>>, <<3>>>>) } }
DeleteCases ==
     { Case(DelU(P("a"), Val(":v")), it, <<>>, V1(v)) : it \in ItemsA, v \in { Mk("SS", <<<<99>>>>), Mk("SS", <<<<120>>>>), Mk("NS", <<Num(2).n>>), Mk("BS", <<<<2>>>>), SAB, Num(1) } }
MultiCases ==
     { Case([NoUpd EXCEPT !.set = <<[p |-> P("a"), v |-> Val(":v")]>>, !.remove = <<P("b")>>], it, <<>>, V1(SAB)) : it \in WithB }
  \cup { Case([NoUpd EXCEPT !.set = <<[p |-> P("c"), v |-> Val(":v")], [p |-> P("d"), v |-> Val(":w")]>>], it, <<>>, V2(SAB, Num(1))) : it \in ItemsA }
  \cup { Case([NoUpd EXCEPT !.set = <<[p |-> P("c"), v |-> Val(":v")]>>, !.add = <<[p |-> P("kn"), v |-> Val(":w")]>>, !.remove = <<P("ks")>>], Keep, <<>>, V2(SAB, Num(1))) }
  \cup { Case([NoUpd EXCEPT !.set = <<[p |-> P("km"), v |-> Val(":v")], [p |-> <<N_("km"), N_("q")>>, v |-> Val(":w")]>>], Keep, <<>>, V2(SAB, Num(1))) }   \* overlapping targets
\* one placeholder used by two actions: the operand must not be consumed or shared between them
SharedOperandCases ==
  LET it == Keep @@ [a |-> Mk("SS", <<<<120>>>>), b |-> Mk("SS", <<<<121>>>>), c |-> Mk("SS", <<<<120>>, <<122>>>>), n1 |-> Num(1), n2 |-> Num(2)]
      big == Mk("SS", <<<<112>>, <<113>>, <<114>>>>)
  IN { Case([NoUpd EXCEPT !.add = <<[p |-> P("a"), v |-> Val(":v")], [p |-> P("b"), v |-> Val(":v")]>>], it, <<>>, V1(big)),
       Case([NoUpd EXCEPT !.add = <<[p |-> P("a"), v |-> Val(":v")]>>, !.del = <<[p |-> P("c"), v |-> Val(":v")]>>], it, <<>>, V1(Mk("SS", <<<<120>>, <<112>>, <<113>>>>))),
       Case([NoUpd EXCEPT !.add = <<[p |-> P("n1"), v |-> Val(":v")], [p |-> P("n2"), v |-> Val(":v")]>>], it, <<>>, V1(Num(5))),
       Case([NoUpd EXCEPT !.set = <<[p |-> P("x"), v |-> Val(":v")], [p |-> P("y"), v |-> Val(":v")]>>, !.add = <<[p |-> P("a"), v |-> Val(":v")]>>], it, <<>>, V1(big)),
       Case([NoUpd EXCEPT !.set = <<[p |-> P("x"), v |-> [k |-> "lapp", l |-> Val(":v"), r |-> Val(":v")]], [p |-> P("y"), v |-> Val(":v")]>>], it, <<>>, V1(LV)) }
\* list_append twice with one first operand (a list attribute, a placeholder) of every length 0..5: the operand must come out of
\* the first call as it went in (an append that writes into spare capacity of the operand would show in the second result)
ListOf(k) == Mk("L", [i \in 1..k |-> Num(i)])
LApp(l, r) == [k |-> "lapp", l |-> l, r |-> r]
SharedListCases ==
     { Case([NoUpd EXCEPT !.set = <<[p |-> P("x"), v |-> LApp(Path("lst"), Val(":v"))], [p |-> P("y"), v |-> LApp(Path("lst"), Val(":w"))]>>],
            Keep @@ [lst |-> ListOf(k)], <<>>, V2(Mk("L", <<Str(<<112>>)>>), Mk("L", <<Str(<<113>>)>>))) : k \in 0..5 }
  \cup { Case([NoUpd EXCEPT !.set = <<[p |-> P("x"), v |-> LApp(Val(":v"), Path("kl"))], [p |-> P("y"), v |-> LApp(Val(":v"), Val(":w"))]>>],
            Keep, <<>>, V2(ListOf(k), Mk("L", <<Str(<<113>>)>>))) : k \in 0..5 }
  \cup { Case([NoUpd EXCEPT !.set = <<[p |-> P("lst"), v |-> LApp(Path("lst"), Val(":v"))], [p |-> P("y"), v |-> LApp(Path("lst"), Val(":w"))]>>],
            Keep @@ [lst |-> ListOf(k)], <<>>, V2(Mk("L", <<Str(<<112>>)>>), Mk("L", <<Str(<<113>>)>>))) : k \in {3, 5} }
\* every clause through name placeholders, top-level and nested
AliasCases ==
  LET it == Keep @@ [a |-> Num(1), s |-> SSV, m |-> MV]
      NM == [x \in {"#a", "#m", "#x"} |-> IF x = "#a" THEN "a" ELSE IF x = "#m" THEN "m" ELSE "x"]
      Only(S) == [x \in S |-> NM[x]]
  IN { Case(RemU(<<<<A_("#a")>>>>), it, Only({"#a"}), <<>>),
       Case(RemU(<<<<A_("#a")>>, P("ks")>>), it, Only({"#a"}), <<>>),
       Case(RemU(<<<<A_("#m"), A_("#x")>>>>), it, Only({"#m", "#x"}), <<>>),
       Case(RemU(<<<<N_("m"), A_("#x")>>>>), it, Only({"#x"}), <<>>),
       Case(AddU(<<A_("#a")>>, Val(":v")), it, Only({"#a"}), V1(Num(2))),
       Case(AddU(<<A_("#a")>>, Val(":v")), Keep, Only({"#a"}), V1(Num(2))),
       Case(SetU(<<A_("#m"), A_("#x")>>, Val(":v")), it, Only({"#m", "#x"}), V1(Num(2))),
       Case(SetU(<<A_("#a")>>, [k |-> "plus", l |-> PathOf(<<A_("#a")>>), r |-> Val(":v")]), it, Only({"#a"}), V1(Num(2))),
       Case([NoUpd EXCEPT !.set = <<[p |-> P("c"), v |-> PathOf(<<A_("#a")>>)]>>, !.remove = <<<<A_("#a")>>>>], it, Only({"#a"}), <<>>) }
       \cup { Case(DelU(<<A_("#a")>>, Val(":v")), Keep @@ [a |-> SSV], Only({"#a"}), V1(Mk("SS", <<<<99>>>>))) }
\* attribute names and placeholders are case-sensitive in update expressions too, whatever ran before in the same process
CaseCases ==
  LET it == Keep @@ [a |-> Num(1), A |-> SAB, st |-> Num(5), St |-> Num(6)]
  IN { Case(SetU(P(n), Val(":v")), it, <<>>, V1(Num(2))) : n \in {"a", "A", "st", "St", "ST"} }
     \cup { Case(RemU(<<P(n)>>), it, <<>>, <<>>) : n \in {"a", "A", "ST"} }
     \cup { Case(AddU(P(n), Val(":v")), it, <<>>, V1(Num(2))) : n \in {"st", "St", "sT"} }
     \cup { Case(SetU(P("c"), Val(ph)), it, <<>>, [x \in {ph} |-> IF x = ":v" THEN Num(2) ELSE Num(3)]) : ph \in {":v", ":V"} }
     \cup { Case(SetU(<<A_(ph)>>, Val(":v")), it, [x \in {ph} |-> IF x = "#n" THEN "a" ELSE "A"], V1(Num(2))) : ph \in {"#n", "#N"} }
\* clauses of one expression all address the PRE-update positions of a list: REMOVE l[0] does not shift what l[1] means for a later clause
ListPosCases ==
  LET it == Keep @@ [lst |-> Mk("L", <<Str(<<97>>), Str(<<98>>), Str(<<99>>)>>)]
  IN { Case([NoUpd EXCEPT !.remove = <<<<N_("lst"), I_(0)>>>>, !.set = <<[p |-> <<N_("lst"), I_(1)>>, v |-> Val(":v")]>>], it, <<>>, V1(SAB)),
       Case([NoUpd EXCEPT !.remove = <<<<N_("lst"), I_(0)>>>>, !.set = <<[p |-> P("x"), v |-> PathOf(<<N_("lst"), I_(1)>>)]>>], it, <<>>, <<>>),
       Case([NoUpd EXCEPT !.remove = <<<<N_("lst"), I_(0)>>, <<N_("lst"), I_(2)>>>>], it, <<>>, <<>>),
       Case([NoUpd EXCEPT !.remove = <<<<N_("lst"), I_(1)>>>>, !.set = <<[p |-> <<N_("lst"), I_(2)>>, v |-> PathOf(<<N_("lst"), I_(0)>>)]>>], it, <<>>, <<>>) }
\* the same with the clauses written in another order than the printer of the harness uses (REMOVE first): text cases
ListPosTexts ==
  LET it == Keep @@ [lst |-> Mk("L", <<Str(<<97>>), Str(<<98>>), Str(<<99>>)>>)]
      TC(text, values) == [op |-> "ApplyText", text |-> text, item |-> it, names |-> <<>>, values |-> values, strict |-> TRUE]
  IN { TC(<<82,69,77,79,86,69,32,108,115,116,91,48,93,32,83,69,84,32,108,115,116,91,49,93,32,61,32,58,118>>, V1(SAB)),
       TC(<<82,69,77,79,86,69,32,108,115,116,91,48,93,32,83,69,84,32,120,32,61,32,108,115,116,91,49,93>>, <<>>),
       TC(<<82,69,77,79,86,69,32,108,115,116,91,49,93,32,83,69,84,32,108,115,116,91,50,93,32,61,32,108,115,116,91,48,93>>, <<>>),
       TC(<<65,68,68,32,107,110,32,58,110,32,82,69,77,79,86,69,32,108,115,116,91,48,93,32,83,69,84,32,108,115,116,91,50,93,32,61,32,58,118>>, [x \in {":v", ":n"} |-> IF x = ":v" THEN SAB ELSE Num(1)]),
       TC(<<82,69,77,79,86,69,32,108,115,116,91,48,93,44,32,108,115,116,91,50,93,32,83,69,84,32,120,32,61,32,108,115,116,91,49,93>>, <<>>) }
\* right-hand sides read the PRE-update item
PreStateCases ==
     { Case([NoUpd EXCEPT !.set = <<[p |-> P("a"), v |-> Path("b")], [p |-> P("b"), v |-> Path("a")]>>], it, <<>>, <<>>) : it \in { x \in WithB : "a" \in DOMAIN x } }
  \cup { Case([NoUpd EXCEPT !.set = <<[p |-> P("kn"), v |-> [k |-> "plus", l |-> Path("kn"), r |-> Val(":v")]], [p |-> P("c"), v |-> Path("kn")]>>], Keep, <<>>, V1(Num(1))) }
  \cup { Case([NoUpd EXCEPT !.set = <<[p |-> P("c"), v |-> Path("ks")]>>, !.remove = <<P("ks")>>], Keep, <<>>, <<>>) }

\* coincidences of TEXT: a value of another type that prints like the stored one really replaces it, and attributes / operands
\* that are written with the same numeral stay separate numbers (an ADD to one of them leaves the others alone)
TwinCases ==
  LET STrue == Str(<<116, 114, 117, 101>>)
      S1_ == Str(<<49>>)
  IN { Case(SetU(P("a"), Val(":v")), Keep @@ [a |-> x[1]], <<>>, V1(x[2])) :
         x \in { <<Num(1), S1_>>, <<S1_, Num(1)>>, <<STrue, Bool(TRUE)>>, <<Bool(TRUE), STrue>>, <<Num(7), Str(<<55>>)>> } }
     \cup { Case(AddU(P("a"), Val(":v")), Keep @@ [a |-> Num(7)], <<>>, V1(Num(1))),
            Case(AddU(P("a"), Val(":v")), Keep @@ [a |-> Num(7), b |-> Num(7)], <<>>, V1(Num(7))),
            Case([NoUpd EXCEPT !.add = <<[p |-> P("a"), v |-> Val(":v")], [p |-> P("b"), v |-> Val(":v")]>>], Keep @@ [a |-> Num(2), b |-> Num(1)], <<>>, V1(Num(2))),
            Case(SetU(P("a"), [k |-> "plus", l |-> Path("a"), r |-> Val(":v")]), Keep @@ [a |-> Num(7), b |-> Num(7)], <<>>, V1(Num(7))) }
Cases == TwinCases \cup ListPosCases \cup ListPosTexts \cup SharedOperandCases \cup SharedListCases \cup AliasCases \cup CaseCases \cup SetCases \cup NestedCases \cup RemoveCases \cup AddCases \cup DeleteCases \cup MultiCases \cup PreStateCases
ASSUME \A c \in Cases : PrintT(ToJson(c))
ASSUME PrintT(ToJson([kind |-> "count", n |-> Cardinality(Cases)]))
VARIABLE dummy
Init == dummy = 0
Next == UNCHANGED dummy
=============================================================================
