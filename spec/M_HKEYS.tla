--------------------------- MODULE M_HKEYS ---------------------------
(* C13: "distinct keys never collide", for keys made of the bytes an encoding of keys is most likely to treat specially:
   NUL, 0x01, the nibble boundary 0x0F / 0x10 / 0x11 (hex renderings without padding), the separator '.', the escape
   character '\', a quote and a space.  Every key of the pool is written with an attribute naming it; then every key is
   read back and the table is scanned: an item overwritten by another key's Put, or found under another key, shows.
   Three pools: binary hash-only, string hash-only, string hash+range (all pairs of one- and two-byte pieces).      *)
EXTENDS ModelLib
T1 == "tbl1"
BinBytes == {0, 1, 15, 16, 17, 46, 92}
StrBytes == {1, 32, 34, 46, 92, 97}
Pieces(B) == { <<x>> : x \in B } \cup { <<x, y>> : x \in B, y \in B }
CT(hty, withRange) ==
  [op |-> "CreateTable", c |-> "c1", t |-> T1, hash |-> [n |-> "h", ty |-> hty], range |-> [some |-> withRange, n |-> IF withRange THEN "r" ELSE "", ty |-> IF withRange THEN hty ELSE ""],
   billing |-> "PAY_PER_REQUEST", thr |-> FALSE,
   attrs |-> IF withRange THEN <<[n |-> "h", ty |-> hty], [n |-> "r", ty |-> hty]>> ELSE <<[n |-> "h", ty |-> hty]>>, gsis |-> <<>>, lsis |-> <<>>]
Scan == ScanOp("c1", T1, NoIndex, NoFilter, <<>>, <<>>)
Pool(keys) == LET ks == SetToSeq(keys) IN
  [i \in 1..Len(ks) |-> Put(T1, ks[i] @@ [who |-> Num(i)])] \o [i \in 1..Len(ks) |-> Get(T1, ks[i])] \o <<Scan>>
BinPool == <<CT("B", FALSE)>> \o Pool({ [h |-> Bin(p)] : p \in Pieces(BinBytes) })
StrPool == <<CT("S", FALSE)>> \o Pool({ [h |-> Str(p)] : p \in Pieces(StrBytes) })
PairBytes == {46, 92, 97}
\* hash+range: the known open finding C13/dot-separator-collision (hash "." range is not injective) would end the trace at the
\* first such pair, so the pool keeps ONE key of every class of keys that deviation identifies; a different encoding collides
\* on other pairs, and those are all still here
PairKeys == { [h |-> Str(p), r |-> Str(q)] : p \in Pieces(PairBytes), q \in Pieces(PairBytes) }
DotJoin(k) == k.h.s \o <<46>> \o k.r.s
PairPool == <<CT("S", TRUE)>> \o Pool({ k \in PairKeys : k = CHOOSE x \in { y \in PairKeys : DotJoin(y) = DotJoin(k) } : TRUE })
Traces == { BinPool, StrPool, PairPool }
ASSUME \A t \in Traces : PrintT(ToJson([kind |-> "trace", ops |-> t]))
SetupDef == <<>>
MenuDef == <<>>
BoundDef(d) == TRUE
=============================================================================
