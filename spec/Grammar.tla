--------------------------- MODULE Grammar ---------------------------
(* The expression grammar, from bytes to the abstract syntax trees of Expr.tla.

   Lex(bytes)            -> sequence of tokens [t |-> type, s |-> bytes]
   ParseCond(tokens)     -> [ok |-> BOOLEAN, ast |-> condition]   (ok = the WHOLE input is one condition)
   ParseUpdate(tokens)   -> [ok |-> BOOLEAN, ast |-> update]

   Grammar (DynamoDB's expression reference):
     condition  ::= or ;  or ::= and (OR and)* ;  and ::= not (AND not)* ;  not ::= NOT not | primary
     primary    ::= '(' condition ')' | function | operand comparator operand
                  | operand BETWEEN operand AND operand | operand IN '(' operand (',' operand)* ')'
     function   ::= NAME '(' operand (',' operand)* ')'            (attribute_exists, ..., contains)
     operand    ::= path | VALUE | size '(' path ')'
     path       ::= (NAME | ALIAS) ('.' (NAME | ALIAS) | '[' DIGITS ']')*
     update     ::= clause+ , each of SET / REMOVE / ADD / DELETE at most once
     SET        ::= path '=' value (',' path '=' value)* ; value ::= term (('+' | '-') term)?
     term       ::= operand | if_not_exists '(' path ',' value ')' | list_append '(' term ',' term ')'
     REMOVE     ::= path (',' path)* ;  ADD / DELETE ::= path VALUE (',' path VALUE)*
   Keywords (AND OR NOT BETWEEN IN SET REMOVE ADD DELETE) are case-insensitive.  NAME = [A-Za-z_][A-Za-z0-9_]*,
   ALIAS = '#' [A-Za-z0-9_]+, VALUE = ':' [A-Za-z0-9_]+.  Any other character is an illegal token.        *)
EXTENDS Expr, Reserved

IsLetter(c) == (c >= 65 /\ c <= 90) \/ (c >= 97 /\ c <= 122)
IsDigit(c)  == c >= 48 /\ c <= 57
IsWord(c)   == IsLetter(c) \/ IsDigit(c) \/ c = 95
IsWS(c)     == c \in {32, 9, 10, 13}
Upper(c)    == IF c >= 97 /\ c <= 122 THEN c - 32 ELSE c
UpperSeq(s) == [i \in 1..Len(s) |-> Upper(s[i])]

KwTable == << <<"AND", <<65,78,68>>>>, <<"OR", <<79,82>>>>, <<"NOT", <<78,79,84>>>>, <<"BETWEEN", <<66,69,84,87,69,69,78>>>>, <<"IN", <<73,78>>>>,
              <<"SET", <<83,69,84>>>>, <<"REMOVE", <<82,69,77,79,86,69>>>>, <<"ADD", <<65,68,68>>>>, <<"DELETE", <<68,69,76,69,84,69>>>> >>
KwOf(s) == LET u == UpperSeq(s)
               hit == { i \in DOMAIN KwTable : KwTable[i][2] = u }
           IN IF hit = {} THEN "NAME" ELSE KwTable[CHOOSE i \in hit : TRUE][1]

RECURSIVE WordEnd(_,_)
WordEnd(b, i) == IF i <= Len(b) /\ IsWord(b[i]) THEN WordEnd(b, i + 1) ELSE i

\* a word directly followed by '#' or ':' (or the reverse) is not two tokens in DynamoDB: it is illegal
Glued(b, j) == j <= Len(b) /\ (b[j] = 35 \/ b[j] = 58)

RECURSIVE LexFrom(_,_,_)
LexFrom(b, i, acc) ==
  IF i > Len(b) THEN acc
  ELSE LET c == b[i] IN
    IF IsWS(c) THEN LexFrom(b, i + 1, acc)
    ELSE IF IsLetter(c) \/ c = 95 THEN
         LET j == WordEnd(b, i)
             s == SubSeq(b, i, j - 1)
         IN IF Glued(b, j) THEN Append(acc, [t |-> "ILLEGAL", s |-> s])
            ELSE LexFrom(b, j, Append(acc, [t |-> KwOf(s), s |-> s]))
    ELSE IF IsDigit(c) THEN
         LET j == WordEnd(b, i)
             s == SubSeq(b, i, j - 1)
         IN IF Glued(b, j) \/ (\E k \in DOMAIN s : ~IsDigit(s[k])) THEN Append(acc, [t |-> "ILLEGAL", s |-> s])
            ELSE LexFrom(b, j, Append(acc, [t |-> "DIGITS", s |-> s]))
    ELSE IF c = 35 \/ c = 58 THEN
         LET j == WordEnd(b, i + 1)
             s == SubSeq(b, i, j - 1)
         IN IF j = i + 1 \/ Glued(b, j) THEN Append(acc, [t |-> "ILLEGAL", s |-> s])
            ELSE LexFrom(b, j, Append(acc, [t |-> IF c = 35 THEN "ALIAS" ELSE "VALUE", s |-> s]))
    ELSE IF c = 60 /\ i < Len(b) /\ b[i+1] = 62 THEN LexFrom(b, i + 2, Append(acc, [t |-> "<>", s |-> <<>>]))
    ELSE IF c = 60 /\ i < Len(b) /\ b[i+1] = 61 THEN LexFrom(b, i + 2, Append(acc, [t |-> "<=", s |-> <<>>]))
    ELSE IF c = 62 /\ i < Len(b) /\ b[i+1] = 61 THEN LexFrom(b, i + 2, Append(acc, [t |-> ">=", s |-> <<>>]))
    ELSE IF c = 60 THEN LexFrom(b, i + 1, Append(acc, [t |-> "<", s |-> <<>>]))
    ELSE IF c = 62 THEN LexFrom(b, i + 1, Append(acc, [t |-> ">", s |-> <<>>]))
    ELSE IF c = 61 THEN LexFrom(b, i + 1, Append(acc, [t |-> "=", s |-> <<>>]))
    ELSE IF c = 40 THEN LexFrom(b, i + 1, Append(acc, [t |-> "(", s |-> <<>>]))
    ELSE IF c = 41 THEN LexFrom(b, i + 1, Append(acc, [t |-> ")", s |-> <<>>]))
    ELSE IF c = 44 THEN LexFrom(b, i + 1, Append(acc, [t |-> ",", s |-> <<>>]))
    ELSE IF c = 46 THEN LexFrom(b, i + 1, Append(acc, [t |-> ".", s |-> <<>>]))
    ELSE IF c = 91 THEN LexFrom(b, i + 1, Append(acc, [t |-> "[", s |-> <<>>]))
    ELSE IF c = 93 THEN LexFrom(b, i + 1, Append(acc, [t |-> "]", s |-> <<>>]))
    ELSE IF c = 43 THEN LexFrom(b, i + 1, Append(acc, [t |-> "+", s |-> <<>>]))
    ELSE IF c = 45 THEN LexFrom(b, i + 1, Append(acc, [t |-> "-", s |-> <<>>]))
    ELSE Append(acc, [t |-> "ILLEGAL", s |-> <<c>>])
Lex(b) == LexFrom(b, 1, <<>>)

\* token-level facts the judge needs besides the tree
Keywords == {"AND", "OR", "NOT", "BETWEEN", "IN", "SET", "REMOVE", "ADD", "DELETE"}
FnSpellings == { <<97,116,116,114,105,98,117,116,101,95,101,120,105,115,116,115>>, <<97,116,116,114,105,98,117,116,101,95,110,111,116,95,101,120,105,115,116,115>>,
                 <<97,116,116,114,105,98,117,116,101,95,116,121,112,101>>, <<98,101,103,105,110,115,95,119,105,116,104>>, <<99,111,110,116,97,105,110,115>>,
                 <<115,105,122,101>>, <<105,102,95,110,111,116,95,101,120,105,115,116,115>>, <<108,105,115,116,95,97,112,112,101,110,100>> }
TokAt(ts, p) == IF p <= Len(ts) THEN ts[p].t ELSE "EOF"
\* a bare attribute name (a NAME token that is not a function call) that is a reserved word, in any position (C16)
ReservedByLen == [n \in 1..20 |-> { w \in ReservedWords : Len(w) = n }]
IsReserved(bs) == Len(bs) \in 1..20 /\ UpperSeq(bs) \in ReservedByLen[Len(bs)]
ReservedUse(ts) == \E p \in DOMAIN ts : ts[p].t = "NAME" /\ TokAt(ts, p + 1) # "(" /\ IsReserved(ts[p].s)
\* a function name used as a plain attribute name: the references do not say whether that is allowed
FnNameAsAttr(ts) == \E p \in DOMAIN ts : ts[p].t = "NAME" /\ TokAt(ts, p + 1) # "(" /\ ts[p].s \in FnSpellings
\* a keyword written in another letter case: a keyword all the same, or a rejected expression (D.2) - never a name
OddCaseKeyword(ts) == \E p \in DOMAIN ts : ts[p].t \in Keywords /\ ts[p].s # UpperSeq(ts[p].s)

----------------------------------------------------------------------------
(* attribute names are TLA+ strings in the trees; the judge receives them as bytes.  Names(b) maps the byte
   spelling of every name the harness can use to its string; a spelling outside the table stays unparsed.   *)
CONSTANT NameTable     \* sequence of <<bytes, string>>
\* the table as a function bytes -> string (built once; lookups are then logarithmic)
NameFn == [b \in { NameTable[i][1] : i \in DOMAIN NameTable } |-> NameTable[CHOOSE i \in DOMAIN NameTable : NameTable[i][1] = b][2]]
NameOf(bs) == IF bs \in DOMAIN NameFn THEN NameFn[bs] ELSE "?"
Known(bs) == bs \in DOMAIN NameFn

RECURSIVE DigitsVal(_)
DigitsVal(s) == IF s = <<>> THEN 0 ELSE DigitsVal(SubSeq(s, 1, Len(s) - 1)) * 10 + (s[Len(s)] - 48)

PFail == [ok |-> FALSE, ast |-> [k |-> "none"], p |-> 0]
Tok(ts, p) == IF p <= Len(ts) THEN ts[p].t ELSE "EOF"
Comparators == {"=", "<>", "<", "<=", ">", ">="}
StepOf(tok) == IF tok.t = "ALIAS" THEN [s |-> "a", n |-> NameOf(tok.s), i |-> 0] ELSE [s |-> "n", n |-> NameOf(tok.s), i |-> 0]
NameTok(ts, p) == Tok(ts, p) \in {"NAME", "ALIAS"} /\ Known(ts[p].s)

RECURSIVE PathRest(_,_,_)
PathRest(ts, p, acc) ==
  IF Tok(ts, p) = "." /\ NameTok(ts, p + 1) THEN PathRest(ts, p + 2, Append(acc, StepOf(ts[p + 1])))
  ELSE IF Tok(ts, p) = "[" /\ Tok(ts, p + 1) = "DIGITS" /\ Tok(ts, p + 2) = "]" /\ Len(ts[p + 1].s) <= 4
       THEN PathRest(ts, p + 3, Append(acc, [s |-> "i", n |-> "", i |-> DigitsVal(ts[p + 1].s)]))
  ELSE IF Tok(ts, p) \in {".", "["} THEN PFail
  ELSE [ok |-> TRUE, ast |-> acc, p |-> p]
PPath(ts, p) == IF NameTok(ts, p) THEN PathRest(ts, p + 1, <<StepOf(ts[p])>>) ELSE PFail

IsFn(ts, p, name) == Tok(ts, p) = "NAME" /\ Known(ts[p].s) /\ NameOf(ts[p].s) = name /\ Tok(ts, p + 1) = "("
\* operand ::= path | VALUE | size(path)
POperand(ts, p) ==
  IF Tok(ts, p) = "VALUE" /\ Known(ts[p].s) THEN [ok |-> TRUE, ast |-> [k |-> "val", n |-> NameOf(ts[p].s)], p |-> p + 1]
  ELSE IF IsFn(ts, p, "size")
       THEN LET r == PPath(ts, p + 2) IN
            IF r.ok /\ Tok(ts, r.p) = ")" THEN [ok |-> TRUE, ast |-> [k |-> "size", p |-> r.ast], p |-> r.p + 1] ELSE PFail
  ELSE IF Tok(ts, p) = "NAME" /\ Tok(ts, p + 1) = "(" THEN PFail
  ELSE LET r == PPath(ts, p) IN IF r.ok THEN [ok |-> TRUE, ast |-> [k |-> "path", p |-> r.ast], p |-> r.p] ELSE PFail

RECURSIVE POperands(_,_,_)
POperands(ts, p, acc) ==     \* operand (',' operand)* ')'
  LET o == POperand(ts, p) IN
  IF ~o.ok THEN PFail
  ELSE IF Tok(ts, o.p) = "," THEN POperands(ts, o.p + 1, Append(acc, o.ast))
  ELSE IF Tok(ts, o.p) = ")" THEN [ok |-> TRUE, ast |-> Append(acc, o.ast), p |-> o.p + 1]
  ELSE PFail

CondFns == {"attribute_exists", "attribute_not_exists", "attribute_type", "begins_with", "contains"}

RECURSIVE POr(_,_), PAnd(_,_), PNot(_,_), PPrim(_,_), POrRest(_,_,_), PAndRest(_,_,_)
PPrim(ts, p) ==
  IF Tok(ts, p) = "("
  THEN LET r == POr(ts, p + 1) IN IF r.ok /\ Tok(ts, r.p) = ")" THEN [ok |-> TRUE, ast |-> r.ast, p |-> r.p + 1] ELSE PFail
  ELSE IF Tok(ts, p) = "NAME" /\ Known(ts[p].s) /\ NameOf(ts[p].s) \in CondFns /\ Tok(ts, p + 1) = "("
  THEN LET a == POperands(ts, p + 2, <<>>) IN
       IF a.ok THEN [ok |-> TRUE, ast |-> [k |-> "fn", f |-> NameOf(ts[p].s), args |-> a.ast], p |-> a.p] ELSE PFail
  ELSE LET l == POperand(ts, p) IN
       IF ~l.ok THEN PFail
       ELSE IF Tok(ts, l.p) \in Comparators
       THEN LET r == POperand(ts, l.p + 1) IN
            IF r.ok THEN [ok |-> TRUE, ast |-> [k |-> "cmp", op |-> Tok(ts, l.p), l |-> l.ast, r |-> r.ast], p |-> r.p] ELSE PFail
       ELSE IF Tok(ts, l.p) = "BETWEEN"
       THEN LET a == POperand(ts, l.p + 1) IN
            IF a.ok /\ Tok(ts, a.p) = "AND"
            THEN LET b == POperand(ts, a.p + 1) IN
                 IF b.ok THEN [ok |-> TRUE, ast |-> [k |-> "between", x |-> l.ast, lo |-> a.ast, hi |-> b.ast], p |-> b.p] ELSE PFail
            ELSE PFail
       ELSE IF Tok(ts, l.p) = "IN" /\ Tok(ts, l.p + 1) = "("
       THEN LET a == POperands(ts, l.p + 2, <<>>) IN
            IF a.ok THEN [ok |-> TRUE, ast |-> [k |-> "in", x |-> l.ast, xs |-> a.ast], p |-> a.p] ELSE PFail
       ELSE PFail
PNot(ts, p) == IF Tok(ts, p) = "NOT"
               THEN LET r == PNot(ts, p + 1) IN IF r.ok THEN [ok |-> TRUE, ast |-> [k |-> "not", x |-> r.ast], p |-> r.p] ELSE PFail
               ELSE PPrim(ts, p)
PAndRest(ts, l, p) == IF Tok(ts, p) = "AND"
                      THEN LET r == PNot(ts, p + 1) IN IF r.ok THEN PAndRest(ts, [k |-> "and", l |-> l, r |-> r.ast], r.p) ELSE PFail
                      ELSE [ok |-> TRUE, ast |-> l, p |-> p]
PAnd(ts, p) == LET l == PNot(ts, p) IN IF l.ok THEN PAndRest(ts, l.ast, l.p) ELSE PFail
POrRest(ts, l, p) == IF Tok(ts, p) = "OR"
                     THEN LET r == PAnd(ts, p + 1) IN IF r.ok THEN POrRest(ts, [k |-> "or", l |-> l, r |-> r.ast], r.p) ELSE PFail
                     ELSE [ok |-> TRUE, ast |-> l, p |-> p]
POr(ts, p) == LET l == PAnd(ts, p) IN IF l.ok THEN POrRest(ts, l.ast, l.p) ELSE PFail
ParseCond(ts) == LET r == POr(ts, 1) IN IF r.ok /\ r.p = Len(ts) + 1 THEN [ok |-> TRUE, ast |-> r.ast] ELSE [ok |-> FALSE, ast |-> [k |-> "none"]]

----------------------------------------------------------------------------
(* updates *)
RECURSIVE PTerm(_,_), PValue(_,_)
PTerm(ts, p) ==
  IF IsFn(ts, p, "if_not_exists")
  THEN LET a == PPath(ts, p + 2) IN
       IF a.ok /\ Tok(ts, a.p) = ","
       THEN LET b == PValue(ts, a.p + 1) IN
            IF b.ok /\ Tok(ts, b.p) = ")" THEN [ok |-> TRUE, ast |-> [k |-> "ine", p |-> a.ast, v |-> b.ast], p |-> b.p + 1] ELSE PFail
       ELSE PFail
  ELSE IF IsFn(ts, p, "list_append")
  THEN LET a == PTerm(ts, p + 2) IN
       IF a.ok /\ Tok(ts, a.p) = ","
       THEN LET b == PTerm(ts, a.p + 1) IN
            IF b.ok /\ Tok(ts, b.p) = ")" THEN [ok |-> TRUE, ast |-> [k |-> "lapp", l |-> a.ast, r |-> b.ast], p |-> b.p + 1] ELSE PFail
       ELSE PFail
  ELSE IF IsFn(ts, p, "size") THEN PFail
  ELSE POperand(ts, p)
PValue(ts, p) ==
  LET a == PTerm(ts, p) IN
  IF ~a.ok THEN PFail
  ELSE IF Tok(ts, a.p) \in {"+", "-"}
  THEN LET b == PTerm(ts, a.p + 1) IN
       IF b.ok THEN [ok |-> TRUE, ast |-> [k |-> IF Tok(ts, a.p) = "+" THEN "plus" ELSE "minus", l |-> a.ast, r |-> b.ast], p |-> b.p] ELSE PFail
  ELSE a

RECURSIVE PSetActions(_,_,_), PRemoveActions(_,_,_), PAddActions(_,_,_)
PSetActions(ts, p, acc) ==
  LET t == PPath(ts, p) IN
  IF ~t.ok \/ Tok(ts, t.p) # "=" THEN PFail
  ELSE LET v == PValue(ts, t.p + 1) IN
       IF ~v.ok THEN PFail
       ELSE IF Tok(ts, v.p) = "," THEN PSetActions(ts, v.p + 1, Append(acc, [p |-> t.ast, v |-> v.ast]))
       ELSE [ok |-> TRUE, ast |-> Append(acc, [p |-> t.ast, v |-> v.ast]), p |-> v.p]
PRemoveActions(ts, p, acc) ==
  LET t == PPath(ts, p) IN
  IF ~t.ok THEN PFail
  ELSE IF Tok(ts, t.p) = "," THEN PRemoveActions(ts, t.p + 1, Append(acc, t.ast))
  ELSE [ok |-> TRUE, ast |-> Append(acc, t.ast), p |-> t.p]
PAddActions(ts, p, acc) ==
  LET t == PPath(ts, p) IN
  IF ~t.ok \/ ~(Tok(ts, t.p) = "VALUE" /\ Known(ts[t.p].s)) THEN PFail
  ELSE LET a == [p |-> t.ast, v |-> [k |-> "val", n |-> NameOf(ts[t.p].s)]] IN
       IF Tok(ts, t.p + 1) = "," THEN PAddActions(ts, t.p + 2, Append(acc, a))
       ELSE [ok |-> TRUE, ast |-> Append(acc, a), p |-> t.p + 1]

\* a clause keyword may not be repeated in DynamoDB; minidyn-style merging of repeated clauses is tolerated by the
\* judge (D.3), so the parser merges and reports the repetition in `rep`
RECURSIVE PClauses(_,_,_,_,_)
PClauses(ts, p, u, seen, rep) ==
  IF Tok(ts, p) = "EOF" THEN (IF seen = {} THEN PFail ELSE [ok |-> TRUE, ast |-> u, p |-> p, rep |-> rep])
  ELSE IF Tok(ts, p) \notin {"SET", "REMOVE", "ADD", "DELETE"} THEN PFail
  ELSE LET kw == Tok(ts, p)
           r == CASE kw = "SET" -> PSetActions(ts, p + 1, <<>>)
                  [] kw = "REMOVE" -> PRemoveActions(ts, p + 1, <<>>)
                  [] OTHER -> PAddActions(ts, p + 1, <<>>)
       IN IF ~r.ok THEN PFail
          ELSE PClauses(ts, r.p, CASE kw = "SET" -> [u EXCEPT !.set = u.set \o r.ast]
                                   [] kw = "REMOVE" -> [u EXCEPT !.remove = u.remove \o r.ast]
                                   [] kw = "ADD" -> [u EXCEPT !.add = u.add \o r.ast]
                                   [] OTHER -> [u EXCEPT !.del = u.del \o r.ast], seen \cup {kw}, rep \/ kw \in seen)
ParseUpdate(ts) == LET r == PClauses(ts, 1, [set |-> <<>>, remove |-> <<>>, add |-> <<>>, del |-> <<>>], {}, FALSE)
                   IN IF r.ok THEN [ok |-> TRUE, ast |-> r.ast, rep |-> r.rep] ELSE [ok |-> FALSE, ast |-> [k |-> "none"], rep |-> FALSE]

----------------------------------------------------------------------------
(* A deliberately LAX update parser, used only to NAME a known deviation: minidyn (and its unit tests) accept a value
   placeholder where a path is required (SET :x = :v, REMOVE :x) and any operand after ADD / DELETE.  A string that is
   not a sentence but is accepted by this parser gets the signature "update-operand-kinds"; it is never used to accept. *)
LaxHead(ts, p) == NameTok(ts, p) \/ (Tok(ts, p) = "VALUE" /\ Known(ts[p].s))
RECURSIVE LaxPath(_,_)
LaxPath(ts, p) == IF Tok(ts, p) = "(" THEN (LET r == LaxPath(ts, p + 1) IN IF r.ok /\ Tok(ts, r.p) = ")" THEN PathRest(ts, r.p + 1, r.ast) ELSE PFail)
                  ELSE IF LaxHead(ts, p) THEN PathRest(ts, p + 1, <<StepOf(ts[p])>>) ELSE PFail
RECURSIVE LaxSet(_,_), LaxRemove(_,_), LaxAdd(_,_)
LaxSet(ts, p) ==
  LET t == LaxPath(ts, p) IN
  IF ~t.ok \/ Tok(ts, t.p) # "=" THEN PFail
  ELSE LET v == PValue(ts, t.p + 1) IN
       IF ~v.ok THEN PFail ELSE IF Tok(ts, v.p) = "," THEN LaxSet(ts, v.p + 1) ELSE [ok |-> TRUE, ast |-> <<>>, p |-> v.p]
LaxRemove(ts, p) ==
  LET t == LaxPath(ts, p) IN
  IF ~t.ok THEN PFail ELSE IF Tok(ts, t.p) = "," THEN LaxRemove(ts, t.p + 1) ELSE [ok |-> TRUE, ast |-> <<>>, p |-> t.p]
LaxAdd(ts, p) ==
  LET t == LaxPath(ts, p) IN
  IF ~t.ok THEN PFail
  ELSE LET v == PValue(ts, t.p) IN
       IF ~v.ok THEN PFail ELSE IF Tok(ts, v.p) = "," THEN LaxAdd(ts, v.p + 1) ELSE [ok |-> TRUE, ast |-> <<>>, p |-> v.p]
RECURSIVE LaxClauses(_,_,_)
LaxClauses(ts, p, n) ==
  IF Tok(ts, p) = "EOF" THEN n > 0
  ELSE IF Tok(ts, p) \notin {"SET", "REMOVE", "ADD", "DELETE"} THEN FALSE
  ELSE LET r == CASE Tok(ts, p) = "SET" -> LaxSet(ts, p + 1) [] Tok(ts, p) = "REMOVE" -> LaxRemove(ts, p + 1) [] OTHER -> LaxAdd(ts, p + 1)
       IN r.ok /\ LaxClauses(ts, r.p, n + 1)
LaxUpdate(ts) == LaxClauses(ts, 1, 0)

(* Parentheses around a VALUE of an update expression - SET a = (b + :w), list_append((l), :l), if_not_exists(zz, (:w)), even
   (if_not_exists)(zz, :w): the grammar of the reference has none, the code evaluates what is inside, the properties say
   nothing.  StripVP removes every such pair (an opening parenthesis that follows = + - , or another opening parenthesis, i.e.
   is not the parenthesis of a function call or of a clause, with its partner); where that changes the string the judge
   accepts a rejection as well as the meaning of the stripped string.                                                       *)
RECURSIVE MatchP(_,_,_)
MatchP(ts, j, depth) == IF j > Len(ts) THEN 0
                        ELSE IF ts[j].t = "(" THEN MatchP(ts, j + 1, depth + 1)
                        ELSE IF ts[j].t = ")" THEN (IF depth = 0 THEN j ELSE MatchP(ts, j + 1, depth - 1))
                        ELSE MatchP(ts, j + 1, depth)
ValueParenAt(ts, i) == ts[i].t = "(" /\ i > 1 /\ ts[i - 1].t \in {"=", "+", "-", ",", "("} /\ MatchP(ts, i + 1, 0) # 0
RECURSIVE StripVP(_)
StripVP(ts) == LET c == { i \in DOMAIN ts : ValueParenAt(ts, i) } IN
               IF c = {} THEN ts
               ELSE LET i == CHOOSE x \in c : \A y \in c : x <= y
                        j == MatchP(ts, i + 1, 0)
                    IN StripVP(SubSeq(ts, 1, i - 1) \o SubSeq(ts, i + 1, j - 1) \o SubSeq(ts, j + 1, Len(ts)))
=============================================================================
