--------------------------- MODULE M_EXPR ---------------------------
(* C06: enumeration of condition-expression cases.  Every atom shape (comparators, BETWEEN, IN, the six
   functions, size, nested paths, name placeholders) is instantiated with every typing of its operands: the
   attribute takes each representative value of the ten types (two of the ordered ones) or is absent, the
   literal likewise; compound cases exercise AND / OR / NOT and their precedence over atoms whose outcome is
   known.  TLC prints one case per line; the expected outcome is NOT printed: the judge recomputes it.    *)
EXTENDS MiniDyn, Json
CONSTANT Depth
SX == INSTANCE SequencesExt

P(n) == <<[s |-> "n", n |-> n, i |-> 0]>>
Path(n) == [k |-> "path", p |-> P(n)]
PathOf(steps) == [k |-> "path", p |-> steps]
N_(n) == [s |-> "n", n |-> n, i |-> 0]
A_(n) == [s |-> "a", n |-> n, i |-> 0]
I_(i) == [s |-> "i", n |-> "", i |-> i]
Val(n) == [k |-> "val", n |-> n]
Cmp(op, l, r) == [k |-> "cmp", op |-> op, l |-> l, r |-> r]
Fn(f, args) == [k |-> "fn", f |-> f, args |-> args]

SAB == Str(<<97, 98>>)
SB_ == Str(<<98>>)
Reps == << SAB, SB_, Str(<<>>), Num(1), Num(2), Bin(<<1>>), Bin(<<1, 2>>), Bool(TRUE), Bool(FALSE), NullV,
           Mk("L", <<SAB, Num(1)>>), Mk("M", [x |-> SAB]), Mk("M", [x |-> SAB, y |-> Num(1)]), Mk("SS", <<<<97, 98>>, <<99>>>>), Mk("NS", <<Num(1).n, Num(2).n>>),
           Mk("BS", <<<<1>>, <<2>>>>) >>
RepSet == { Reps[i] : i \in DOMAIN Reps }
\* items: attribute a absent or typed; b is always the string "ab", n the number 1 (for path-to-path comparisons)
Base == [b |-> SAB, n |-> Num(1)]
ItemsA == { Base } \cup { Base @@ [a |-> v] : v \in RepSet }
Ops == {"=", "<>", "<", "<=", ">", ">="}
Case(ast, item, names, values) == [op |-> "Match", ast |-> ast, item |-> item, names |-> names, values |-> values]
V1(v) == [x \in {":v"} |-> v]
V2(v, w) == [x \in {":v", ":w"} |-> IF x = ":v" THEN v ELSE w]
TypeNames == { <<83>>, <<78>>, <<66>>, <<66,79,79,76>>, <<78,85,76,76>>, <<76>>, <<77>>, <<83,83>>, <<78,83>>, <<66,83>> }

Atoms ==
     { Case(Cmp(op, Path("a"), Val(":v")), it, <<>>, V1(v)) : op \in Ops, it \in ItemsA, v \in RepSet }
  \cup { Case(Cmp(op, Val(":v"), Path("a")), it, <<>>, V1(v)) : op \in {"=", "<"}, it \in ItemsA, v \in RepSet }
  \cup { Case(Cmp(op, Path("a"), Path(o)), it, <<>>, <<>>) : op \in Ops, it \in ItemsA, o \in {"b", "n", "zz"} }
  \cup { Case([k |-> "between", x |-> Path("a"), lo |-> Val(":v"), hi |-> Val(":w")], it, <<>>, V2(vw[1], vw[2])) :
           it \in ItemsA, vw \in { <<SAB, SB_>>, <<SB_, SAB>>, <<Num(1), Num(2)>>, <<Num(2), Num(1)>>, <<Bin(<<1>>), Bin(<<1, 2>>)>>, <<Str(<<>>), SAB>> } }
  \cup { Case([k |-> "in", x |-> Path("a"), xs |-> <<Val(":v"), Val(":w")>>], it, <<>>, V2(vw[1], vw[2])) :
           it \in ItemsA, vw \in { <<SAB, Num(1)>>, <<Num(2), Bool(TRUE)>>, <<NullV, Mk("M", [x |-> SAB])>>, <<Bin(<<1>>), Mk("L", <<SAB, Num(1)>>)>> } }
  \* BETWEEN whose bounds are attributes (mentioned nowhere else in the expression), present and missing; both bounds of one type
  \cup { Case([k |-> "between", x |-> Path("a"), lo |-> bd[1], hi |-> bd[2]], it @@ [lo1 |-> SAB, hi1 |-> SB_, lo2 |-> Num(1), hi2 |-> Num(2)], <<>>, bd[3]) :
           it \in ItemsA, bd \in { <<Path("lo1"), Path("hi1"), <<>>>>, <<Path("lo2"), Path("hi2"), <<>>>>, <<Path("zz"), Path("hi1"), <<>>>>, <<Path("lo1"), Path("zz"), <<>>>>,
                                  <<Path("lo1"), Val(":v"), V1(SB_)>>, <<Val(":v"), Path("hi2"), V1(Num(1))>> } }
  \* IN lists holding attribute paths, present and missing, before and after the operand that matches
  \cup { Case([k |-> "in", x |-> Path("a"), xs |-> xs], it, <<>>, IF \E i \in DOMAIN xs : xs[i].k = "val" THEN V1(SAB) ELSE <<>>) : it \in ItemsA,
           xs \in { <<Path("b"), Val(":v")>>, <<Path("zz"), Val(":v")>>, <<Val(":v"), Path("zz")>>, <<Path("zz"), Path("b")>>, <<Path("n"), Path("zz"), Val(":v")>> } }
  \cup { Case([k |-> "in", x |-> Path(x), xs |-> <<Path("a"), Path("n")>>], it, <<>>, <<>>) : it \in ItemsA, x \in {"b", "n", "zz"} }
  \cup { Case(Fn(f, <<Path("a")>>), it, <<>>, <<>>) : f \in {"attribute_exists", "attribute_not_exists"}, it \in ItemsA }
  \cup { Case(Fn("attribute_type", <<Path("a"), Val(":v")>>), it, <<>>, V1(Str(tn))) : it \in ItemsA, tn \in TypeNames \cup { <<88>> } }
  \cup { Case(Fn("attribute_type", <<Path("a"), Val(":v")>>), it, <<>>, V1(Num(1))) : it \in ItemsA }
  \cup { Case(Fn(f, <<Path("a"), Val(":v")>>), it, <<>>, V1(v)) : f \in {"begins_with", "contains"}, it \in ItemsA, v \in RepSet }
  \cup { Case(Cmp(op, [k |-> "size", p |-> P("a")], Val(":v")), it, <<>>, V1(v)) : op \in {"=", "<", ">="}, it \in ItemsA, v \in {Num(1), Num(2)} }

\* nested paths and placeholders
Nested == [ m |-> Mk("M", [x |-> SAB, y |-> Mk("M", [z |-> Num(1)])]), l |-> Mk("L", <<SAB, Mk("L", <<Num(2)>>)>>), s |-> SAB, b |-> SAB ]
PathCases ==
  { Case(Cmp("=", PathOf(p), Val(":v")), Nested, <<>>, V1(v)) :
      p \in { <<N_("m"), N_("x")>>, <<N_("m"), N_("q")>>, <<N_("m"), N_("y"), N_("z")>>, <<N_("l"), I_(0)>>, <<N_("l"), I_(1), I_(0)>>,
              <<N_("l"), I_(2)>>, <<N_("l"), I_(1), I_(3)>>, <<N_("s"), N_("x")>>, <<N_("s"), I_(0)>>, <<N_("m"), I_(0)>>, <<N_("l"), N_("x")>>,
              <<N_("zz"), N_("x")>>, <<N_("zz"), I_(0)>> },
      v \in { SAB, Num(1), Num(2) } }
  \cup { Case(Fn(f, <<PathOf(p)>>), Nested, <<>>, <<>>) : f \in {"attribute_exists", "attribute_not_exists"},
         p \in { <<N_("m"), N_("x")>>, <<N_("m"), N_("q")>>, <<N_("l"), I_(1)>>, <<N_("l"), I_(2)>>, <<N_("s"), N_("x")>>, <<N_("zz"), N_("x")>> } }
  \cup { Case(Cmp("=", PathOf(<<A_("#n")>>), Val(":v")), Nested, [x \in {"#n"} |-> nm], V1(SAB)) : nm \in {"s", "zz", "m"} }
  \cup { Case(Cmp("=", PathOf(<<A_("#m"), A_("#x")>>), Val(":v")), Nested, [x \in {"#m", "#x"} |-> IF x = "#m" THEN "m" ELSE "x"], V1(SAB)) }

\* boolean structure over atoms of known outcome (a = "ab")
ItT == Base @@ [a |-> SAB]
AT == Cmp("=", Path("a"), Val(":t"))       \* true
AF == Cmp("=", Path("a"), Val(":f"))       \* false
AF2 == Cmp("<", Path("n"), Val(":one"))    \* false: 1 < 1
AT2 == Fn("attribute_exists", <<Path("b")>>)
BV == [x \in {":t", ":f", ":one"} |-> IF x = ":t" THEN SAB ELSE IF x = ":f" THEN SB_ ELSE Num(1)]
Leaves == {AT, AF, AF2, AT2}
UsedVals(c) == [x \in CondVals(c) |-> BV[x]]
Not(x) == [k |-> "not", x |-> x]
And(l, r) == [k |-> "and", l |-> l, r |-> r]
Or(l, r) == [k |-> "or", l |-> l, r |-> r]
Bool1 == { Not(x) : x \in Leaves } \cup { And(x, y) : x, y \in Leaves } \cup { Or(x, y) : x, y \in Leaves }
Bool2 == { Or(x, And(y, z)) : x, y, z \in {AT, AF} } \cup { And(Or(x, y), z) : x, y, z \in {AT, AF} }
         \cup { And(Not(x), y) : x, y \in {AT, AF} } \cup { Not(And(x, y)) : x, y \in {AT, AF} } \cup { Not(Or(x, y)) : x, y \in {AT, AF} }
         \cup { Or(Not(x), y) : x, y \in {AT, AF} } \cup { Not(Not(x)) : x \in {AT, AF} }
         \cup { And(x, And(y, z)) : x, y, z \in {AT, AF} } \cup { Or(Or(x, y), z) : x, y, z \in {AT, AF} }
BoolCases == { Case(c, ItT, <<>>, UsedVals(c)) : c \in Bool1 \cup Bool2 }

\* depth 2: conjunctions / disjunctions of two typed atoms (thorough)
Pairs == IF Depth < 2 THEN {}
         ELSE { Case([k |-> kk, l |-> Cmp(op, Path("a"), Val(":v")), r |-> Fn("attribute_exists", <<Path("b")>>)], it, <<>>, V1(v)) :
                  kk \in {"and", "or"}, op \in Ops, it \in ItemsA, v \in RepSet }
              \cup { Case(Not(Cmp(op, Path("a"), Val(":v"))), it, <<>>, V1(v)) : op \in Ops, it \in ItemsA, v \in RepSet }

\* attribute names, name placeholders and value placeholders are case-sensitive: a / A, #n / #N, :v / :V are different things,
\* whatever was evaluated before in the same process
Cased == [ a |-> SAB, A |-> Num(1), Bb |-> SAB ]
CaseCases ==
  { Case(Cmp(op, Path(n), Val(":v")), Cased, <<>>, V1(v)) : op \in {"=", "<>"}, n \in {"a", "A", "bb", "Bb", "BB"}, v \in { SAB, Num(1) } }
  \cup { Case(Fn(f, <<Path(n)>>), Cased, <<>>, <<>>) : f \in {"attribute_exists", "attribute_not_exists"}, n \in {"a", "A", "bb", "Bb", "BB"} }
  \cup { Case(Cmp("=", PathOf(<<A_(ph)>>), Val(":v")), Cased, [x \in {ph} |-> IF x = "#n" THEN "a" ELSE "A"], V1(SAB)) : ph \in {"#n", "#N"} }
  \cup { Case(Cmp("=", Path("a"), Val(ph)), Cased, <<>>, [x \in {ph} |-> IF x = ":v" THEN SAB ELSE Num(1)]) : ph \in {":v", ":V"} }

Cases == Atoms \cup PathCases \cup BoolCases \cup Pairs \cup CaseCases
ASSUME \A c \in Cases : PrintT(ToJson(c))
ASSUME PrintT(ToJson([kind |-> "count", n |-> Cardinality(Cases)]))
VARIABLE dummy
Init == dummy = 0
Next == UNCHANGED dummy
=============================================================================
