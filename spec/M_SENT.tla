--------------------------- MODULE M_SENT ---------------------------
(* C09, near-sentences: a list of well-formed condition / update expressions covering every production of the
   grammar, and EVERY single-token edit of each of them: delete a token, duplicate it, swap it with its neighbour,
   replace it by each token of an edit alphabet, insert each token of the edit alphabet at every position, and
   put a pair of parentheses around any span of tokens.
   Most edits are not sentences and must be rejected - wherever in the string the damage is, and whatever the item
   holds (operands of IN after the one that matches, the right operand of OR after a true left one, clauses after the
   first ...); some are other sentences and are judged by their meaning.  TLC only spells the strings; the judge
   (Grammar.tla + Expr.tla) decides from the bytes.                                                        *)
EXTENDS MiniDyn, Json
CONSTANTS Kind, EditTokens

\* token spellings
T_A == <<97>>   T_Bt == <<98>>   T_ZZ == <<122,122>>   T_L == <<108>>   T_M == <<109>>   T_Cc == <<99>>   T_SSa == <<115,115>>
T_HN == <<35,110>>   T_V == <<58,118>>   T_W == <<58,119>>   T_TY == <<58,116>>   T_LV == <<58,108>>   T_SV == <<58,115>>
T_EQ == <<61>>   T_NE == <<60,62>>   T_LT == <<60>>   T_GE == <<62,61>>   T_LP == <<40>>   T_RP == <<41>>   T_CM == <<44>>   T_DOT == <<46>>   T_IX0 == <<91,48,93>>
T_PLUS == <<43>>   T_MINUS == <<45>>
T_AND == <<65,78,68>>   T_OR == <<79,82>>   T_NOT == <<78,79,84>>   T_BETWEEN == <<66,69,84,87,69,69,78>>   T_IN == <<73,78>>   T_and == <<97,110,100>>
T_AE == <<97,116,116,114,105,98,117,116,101,95,101,120,105,115,116,115>>
T_ANE == <<97,116,116,114,105,98,117,116,101,95,110,111,116,95,101,120,105,115,116,115>>
T_AT == <<97,116,116,114,105,98,117,116,101,95,116,121,112,101>>
T_BW == <<98,101,103,105,110,115,95,119,105,116,104>>   T_CT == <<99,111,110,116,97,105,110,115>>   T_SZ == <<115,105,122,101>>
T_SET == <<83,69,84>>   T_REMOVE == <<82,69,77,79,86,69>>   T_ADD == <<65,68,68>>   T_DELETE == <<68,69,76,69,84,69>>   T_set == <<115,101,116>>
T_INE == <<105,102,95,110,111,116,95,101,120,105,115,116,115>>   T_LA == <<108,105,115,116,95,97,112,112,101,110,100>>
T_BAD == <<36>>

CondSentences == <<
  <<T_A, T_EQ, T_V>>,
  <<T_A, T_IN, T_LP, T_V, T_CM, T_A, T_RP>>,                                   \* the first operand matches
  <<T_ZZ, T_IN, T_LP, T_V, T_CM, T_A, T_RP>>,                                  \* the attribute is absent
  <<T_A, T_BETWEEN, T_V, T_AND, T_V>>,
  <<T_NOT, T_A, T_NE, T_V, T_AND, T_Bt, T_EQ, T_W, T_OR, T_HN, T_EQ, T_V>>,
  <<T_LP, T_A, T_EQ, T_V, T_OR, T_Bt, T_EQ, T_W, T_RP, T_AND, T_NOT, T_LP, T_A, T_NE, T_V, T_RP>>,
  <<T_AE, T_LP, T_A, T_RP, T_AND, T_ANE, T_LP, T_ZZ, T_RP>>,
  <<T_BW, T_LP, T_A, T_CM, T_V, T_RP, T_OR, T_CT, T_LP, T_L, T_CM, T_V, T_RP>>,
  <<T_SZ, T_LP, T_A, T_RP, T_GE, T_W>>,
  <<T_M, T_DOT, T_A, T_EQ, T_V, T_AND, T_L, T_IX0, T_EQ, T_V>>,
  <<T_AT, T_LP, T_A, T_CM, T_TY, T_RP>>,
  <<T_A, T_LT, T_V, T_OR, T_Bt, T_GE, T_W>> >>
UpdSentences == <<
  <<T_SET, T_A, T_EQ, T_V>>,
  <<T_SET, T_A, T_EQ, T_V, T_CM, T_Bt, T_EQ, T_Bt, T_PLUS, T_W>>,
  <<T_SET, T_Bt, T_EQ, T_INE, T_LP, T_ZZ, T_CM, T_W, T_RP, T_MINUS, T_W>>,
  <<T_SET, T_L, T_EQ, T_LA, T_LP, T_L, T_CM, T_LV, T_RP>>,
  <<T_REMOVE, T_A, T_CM, T_M, T_DOT, T_A, T_CM, T_L, T_IX0>>,
  <<T_ADD, T_Bt, T_W>>,
  <<T_DELETE, T_SSa, T_SV>>,
  <<T_SET, T_A, T_EQ, T_V, T_REMOVE, T_Bt, T_ADD, T_Cc, T_W>>,
  <<T_SET, T_M, T_DOT, T_ZZ, T_EQ, T_V>>,
  <<T_SET, T_HN, T_EQ, T_V>>,
  \* a default that is itself a call, behind an attribute that EXISTS (b) and behind one that does not (zz): the default is part
  \* of the sentence whether or not it is needed
  <<T_SET, T_Bt, T_EQ, T_INE, T_LP, T_Bt, T_CM, T_INE, T_LP, T_ZZ, T_CM, T_W, T_RP, T_RP>> >>
CondEdit == << T_A, T_ZZ, T_HN, T_V, T_W, T_EQ, T_NE, T_LT, T_LP, T_RP, T_CM, T_AND, T_OR, T_NOT, T_BETWEEN, T_IN, T_and, T_AE, T_SZ, T_CT, T_DOT, T_IX0, T_BAD, T_SET >>
UpdEdit  == << T_A, T_Bt, T_ZZ, T_HN, T_V, T_W, T_EQ, T_PLUS, T_MINUS, T_LP, T_RP, T_CM, T_SET, T_REMOVE, T_ADD, T_DELETE, T_set, T_INE, T_LA, T_DOT, T_IX0, T_BAD, T_AND, T_SZ, T_AE >>
Sentences == IF Kind = "cond" THEN CondSentences ELSE UpdSentences
Edit == IF Kind = "cond" THEN CondEdit ELSE UpdEdit
EditSet == { Edit[i] : i \in (DOMAIN Edit) \cap EditTokens }

Without(s, i) == SubSeq(s, 1, i - 1) \o SubSeq(s, i + 1, Len(s))
InsertAt(s, i, t) == SubSeq(s, 1, i) \o <<t>> \o SubSeq(s, i + 1, Len(s))       \* after position i (0 = in front)
Edits(s) ==
     { s }
  \cup { Without(s, i) : i \in DOMAIN s }
  \cup { InsertAt(s, i, s[i]) : i \in DOMAIN s }
  \cup { [s EXCEPT ![i] = s[i + 1], ![i + 1] = s[i]] : i \in 1..(Len(s) - 1) }
  \cup { [s EXCEPT ![i] = t] : i \in DOMAIN s, t \in EditSet }
  \cup { InsertAt(s, i, t) : i \in 0..Len(s), t \in EditSet }
  \* one two-token edit: a pair of parentheses around any span (a parenthesised condition is a sentence, a parenthesised
  \* operand, clause or statement is not)
  \cup { SubSeq(s, 1, i - 1) \o <<T_LP>> \o SubSeq(s, i, j) \o <<T_RP>> \o SubSeq(s, j + 1, Len(s)) : i \in DOMAIN s, j \in DOMAIN s }
Strings == (UNION { Edits(Sentences[k]) : k \in DOMAIN Sentences }) \ { <<>> }

RECURSIVE Join(_)
Join(toks) == IF Len(toks) = 1 THEN toks[1] ELSE toks[1] \o <<32>> \o Join(Tail(toks))
Uses(toks, sp) == \E i \in DOMAIN toks : toks[i] = sp

SX(b) == Str(<<b>>)
Item0 == [a |-> SX(120), b |-> Num(1), l |-> Mk("L", <<SX(120)>>), m |-> Mk("M", [a |-> SX(120)]), ss |-> Mk("SS", <<<<120>>, <<121>>>>)]
ValueOf(ph) == CASE ph = ":v" -> SX(120)
                 [] ph = ":w" -> Num(1)
                 [] ph = ":t" -> SX(83)
                 [] ph = ":l" -> Mk("L", <<SX(121)>>)
                 [] OTHER     -> Mk("SS", <<<<120>>>>)
PhOf == [x \in {T_V, T_W, T_TY, T_LV, T_SV} |-> CASE x = T_V -> ":v" [] x = T_W -> ":w" [] x = T_TY -> ":t" [] x = T_LV -> ":l" [] OTHER -> ":s"]
Case(toks) ==
  LET used == { PhOf[x] : x \in { y \in DOMAIN PhOf : Uses(toks, y) } } IN
  [op |-> IF Kind = "cond" THEN "MatchText" ELSE "ApplyText", text |-> Join(toks), item |-> Item0, strict |-> TRUE,
   names |-> IF Uses(toks, T_HN) THEN [x \in {"#n"} |-> "a"] ELSE <<>>,
   values |-> [x \in used |-> ValueOf(x)]]
Cases == { Case(t) : t \in Strings }
ASSUME \A c \in Cases : PrintT(ToJson(c))
ASSUME PrintT(ToJson([kind |-> "count", n |-> Cardinality(Cases)]))
VARIABLE dummy
Init == dummy = 0
Next == UNCHANGED dummy
=============================================================================
