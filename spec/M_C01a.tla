--------------------------- MODULE M_C01a ---------------------------
(* C01, hash-only table: every Put / Update / Delete / Get over 3 keys and a small attribute universe. *)
EXTENDS GenCore

T1 == "tbl1"
K(b) == [h |-> Str(<<b>>)]
Keys == { K(97), K(98), K(99) }
VVals == { Num(1), Num(2) }
Items == { k @@ m : k \in Keys,
                    m \in { <<>> } \cup { [v |-> x] : x \in VVals } \cup { [w |-> Str(<<120>>)] }
                          \cup { [v |-> x, w |-> Str(<<120>>)] : x \in VVals } }

NoCond == [some |-> FALSE, ast |-> [k |-> "none"]]
P(n) == <<[s |-> "n", n |-> n, i |-> 0]>>
Path(n) == [k |-> "path", p |-> P(n)]
Val(n) == [k |-> "val", n |-> n]
NoUpd == [set |-> <<>>, remove |-> <<>>, add |-> <<>>, del |-> <<>>]

Put(it) == [op |-> "PutItem", c |-> "c1", t |-> T1, item |-> it, cond |-> NoCond, names |-> <<>>, values |-> <<>>, rvf |-> FALSE]
Get(k)  == [op |-> "GetItem", c |-> "c1", t |-> T1, key |-> k]
GetP(k, proj) == [op |-> "GetItem", c |-> "c1", t |-> T1, key |-> k, proj |-> proj]
Del(k, old) == [op |-> "DeleteItem", c |-> "c1", t |-> T1, key |-> k, cond |-> NoCond, names |-> <<>>, values |-> <<>>,
                retold |-> old, rvf |-> FALSE]
Upd(k, u, vals) == [op |-> "UpdateItem", c |-> "c1", t |-> T1, key |-> k, upd |-> u, cond |-> NoCond,
                    names |-> <<>>, values |-> vals, rvf |-> FALSE]

Updates == {
  <<[NoUpd EXCEPT !.set = <<[p |-> P("v"), v |-> Val(":n")]>>], [n \in {":n"} |-> Num(1)]>>,
  <<[NoUpd EXCEPT !.set = <<[p |-> P("v"), v |-> Val(":n")]>>], [n \in {":n"} |-> Num(2)]>>,
  <<[NoUpd EXCEPT !.set = <<[p |-> P("w"), v |-> Val(":x")]>>], [n \in {":x"} |-> Str(<<120>>)]>>,
  <<[NoUpd EXCEPT !.remove = <<P("v")>>], <<>>>>,
  <<[NoUpd EXCEPT !.remove = <<P("w")>>], <<>>>>,
  <<[NoUpd EXCEPT !.add = <<[p |-> P("v"), v |-> Val(":n")]>>], [n \in {":n"} |-> Num(1)]>>,
  <<[NoUpd EXCEPT !.set = <<[p |-> P("v"), v |-> [k |-> "plus", l |-> Path("v"), r |-> Val(":n")]]>>], [n \in {":n"} |-> Num(1)]>>,
  <<[NoUpd EXCEPT !.set = <<[p |-> P("w"), v |-> Val(":x")]>>, !.remove = <<P("v")>>], [n \in {":x"} |-> Str(<<120>>)]>>
}

SetupDef == << [op |-> "AddTable", c |-> "c1", t |-> T1, hash |-> "h", range |-> ""] >>
MenuDef == SetToSeq( { Put(it) : it \in Items } \cup { Get(k) : k \in Keys } \cup { GetP(k, pr) : k \in Keys, pr \in { <<"v">>, <<"w", "zz">> } }
                     \cup { Del(k, b) : k \in Keys, b \in BOOLEAN }
                     \cup { Upd(k, u[1], u[2]) : k \in Keys, u \in Updates } )

BoundDef(d) == \A it \in d["c1"].tables[T1].items : "v" \in DOMAIN it => \E x \in VVals : SameValue(it.v, x)
=============================================================================
