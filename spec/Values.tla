--------------------------- MODULE Values ---------------------------
(* The DynamoDB value universe as the specification sees it.
   A value is a record with the tag t and ONE payload field whose name depends on the tag:
     [t |-> "S", s |-> bytes]   [t |-> "B", b |-> bytes]      bytes = sequence of byte values (so that order,
                                                              prefix, substring and size are definable)
     [t |-> "N", n |-> numeral] numeral = [neg, d, e]         (module Decimal gives it meaning)
     [t |-> "BOOL", bool |-> BOOLEAN]   [t |-> "NULL", null |-> 0]
     [t |-> "L", l |-> sequence of values]   [t |-> "M", m |-> function attribute-name -> value]
     [t |-> "SS", ss |-> seq of byte sequences]  [t |-> "BS", bs |-> ...]   read as sets
     [t |-> "NS", ns |-> sequence of numerals]   read as a set modulo numeric equality
   The payload field differs per tag because TLC raises an error when it compares values of different
   shapes (<<1>> with a record), and it does compare them when it normalises sets or checks equality of
   states: records with different field names are unequal without their fields being compared.
   Pay(a) reads the payload, Mk(t, p) builds a value.
   An item is a function attribute-name -> value; absence is "not in the domain".                     *)
EXTENDS Integers, Sequences, FiniteSets, TLC, Decimal

Tags == {"S","N","B","BOOL","NULL","L","M","SS","NS","BS"}
ScalarOrd == {"S","N","B"}

SetOf(s) == { s[i] : i \in DOMAIN s }

Pay(a) == CASE a.t = "S" -> a.s [] a.t = "B" -> a.b [] a.t = "N" -> a.n [] a.t = "BOOL" -> a.bool
            [] a.t = "L" -> a.l [] a.t = "M" -> a.m [] a.t = "SS" -> a.ss [] a.t = "NS" -> a.ns
            [] a.t = "BS" -> a.bs [] OTHER -> 0
Mk(t, p) == CASE t = "S" -> [t |-> "S", s |-> p] [] t = "B" -> [t |-> "B", b |-> p] [] t = "N" -> [t |-> "N", n |-> p]
              [] t = "BOOL" -> [t |-> "BOOL", bool |-> p] [] t = "L" -> [t |-> "L", l |-> p] [] t = "M" -> [t |-> "M", m |-> p]
              [] t = "SS" -> [t |-> "SS", ss |-> p] [] t = "NS" -> [t |-> "NS", ns |-> p] [] t = "BS" -> [t |-> "BS", bs |-> p]
              [] OTHER -> [t |-> "NULL", null |-> 0]

RECURSIVE SeqLess(_,_)
SeqLess(a, b) == IF a = <<>> THEN b # <<>>
                 ELSE IF b = <<>> THEN FALSE
                 ELSE IF a[1] < b[1] THEN TRUE
                 ELSE IF a[1] > b[1] THEN FALSE
                 ELSE SeqLess(Tail(a), Tail(b))
SeqLeq(a, b) == ~SeqLess(b, a)
IsPrefixB(p, s) == Len(p) <= Len(s) /\ SubSeq(s, 1, Len(p)) = p
IsSubB(p, s) == \E i \in 0..(Len(s) - Len(p)) : SubSeq(s, i+1, i+Len(p)) = p

NumSetSub(a, b) == \A i \in DOMAIN a : \E j \in DOMAIN b : DEq(a[i], b[j])

RECURSIVE SameValue(_,_)
SameValue(a, b) ==
  /\ a.t = b.t
  /\ CASE a.t \in {"S","B"}   -> Pay(a) = Pay(b)
       [] a.t = "N"           -> DEq(a.n, b.n)
       [] a.t = "BOOL"        -> a.bool = b.bool
       [] a.t = "NULL"        -> TRUE
       [] a.t = "L"           -> /\ Len(a.l) = Len(b.l)
                                 /\ \A i \in DOMAIN a.l : SameValue(a.l[i], b.l[i])
       [] a.t = "M"           -> /\ DOMAIN a.m = DOMAIN b.m
                                 /\ \A k \in DOMAIN a.m : SameValue(a.m[k], b.m[k])
       [] a.t \in {"SS","BS"} -> SetOf(Pay(a)) = SetOf(Pay(b))
       [] a.t = "NS"          -> NumSetSub(a.ns, b.ns) /\ NumSetSub(b.ns, a.ns)
       [] OTHER               -> FALSE

SameItem(a, b) == /\ DOMAIN a = DOMAIN b
                  /\ \A k \in DOMAIN a : SameValue(a[k], b[k])

\* order inside one scalar type; callers guarantee a.t = b.t \in ScalarOrd
VLess(a, b) == IF a.t = "N" THEN DLess(a.n, b.n) ELSE SeqLess(Pay(a), Pay(b))
VLeq(a, b)  == IF a.t = "N" THEN DLeq(a.n, b.n)  ELSE SeqLeq(Pay(a), Pay(b))

\* well-formedness of a value (what DynamoDB accepts): sets non-empty and without duplicates,
\* numbers within range
RECURSIVE ValidValue(_)
ValidValue(a) ==
  CASE a.t = "N"  -> DValid(a.n)
    [] a.t = "L"  -> \A i \in DOMAIN a.l : ValidValue(a.l[i])
    [] a.t = "M"  -> \A k \in DOMAIN a.m : ValidValue(a.m[k])
    [] a.t \in {"SS","BS"} -> Pay(a) # <<>> /\ Cardinality(SetOf(Pay(a))) = Len(Pay(a))
    [] a.t = "NS" -> /\ a.ns # <<>>
                     /\ \A i, j \in DOMAIN a.ns : i # j => ~DEq(a.ns[i], a.ns[j])
                     /\ \A i \in DOMAIN a.ns : DValid(a.ns[i])
    [] OTHER      -> TRUE

\* number of elements / bytes, as size() defines it
VSize(a) == CASE a.t \in {"S","B","L","SS","NS","BS"} -> Len(Pay(a))
              [] a.t = "M" -> Cardinality(DOMAIN a.m)
              [] OTHER -> 0

\* constructors used by the bounded models
Str(bytes) == [t |-> "S", s |-> bytes]
Bin(bytes) == [t |-> "B", b |-> bytes]
Num(k)     == [t |-> "N", n |-> IF k < 0 THEN [neg |-> TRUE, d |-> NatDigits(-k), e |-> 0]
                                         ELSE [neg |-> FALSE, d |-> NatDigits(k), e |-> 0]]
Bool(b)    == [t |-> "BOOL", bool |-> b]
NullV      == [t |-> "NULL", null |-> 0]
=============================================================================
