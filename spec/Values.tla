--------------------------- MODULE Values ---------------------------
(* The DynamoDB value universe as the specification sees it.
   A value is [t |-> tag, v |-> payload]:
     S, B    payload = sequence of byte values (so that order, prefix, substring, size are definable)
     N       payload = numeral [neg, d, e] (module Decimal gives it meaning)
     BOOL    payload = BOOLEAN            NULL payload = 0
     L       payload = sequence of values M    payload = function attribute-name -> value
     SS, BS  payload = sequence of byte sequences, read as a set
     NS      payload = sequence of numerals, read as a set modulo numeric equality
   Tags are always compared before payloads (TLC raises an error on <<1>> = 0).
   An item is a function attribute-name -> value; absence is "not in the domain".                     *)
EXTENDS Integers, Sequences, FiniteSets, TLC, Decimal

Tags == {"S","N","B","BOOL","NULL","L","M","SS","NS","BS"}
ScalarOrd == {"S","N","B"}

SetOf(s) == { s[i] : i \in DOMAIN s }

RECURSIVE SeqLess(_,_)
SeqLess(a, b) == IF a = <<>> THEN b # <<>>
                 ELSE IF b = <<>> THEN FALSE
                 ELSE IF a[1] < b[1] THEN TRUE
                 ELSE IF a[1] > b[1] THEN FALSE
                 ELSE SeqLess(Tail(a), Tail(b))
SeqLeq(a, b) == ~SeqLess(b, a)
IsPrefixB(p, s) == Len(p) <= Len(s) /\ SubSeq(s, 1, Len(p)) = p
IsSubB(p, s) == \E i \in 0..(Len(s) - Len(p)) : SubSeq(s, i+1, i+Len(p)) = p

NumSetSub(a, b) == \A i \in DOMAIN a : \E j \in DOMAIN b : DEq(a[i], b[j])

RECURSIVE SameValue(_,_)
SameValue(a, b) ==
  /\ a.t = b.t
  /\ CASE a.t \in {"S","B"}   -> a.v = b.v
       [] a.t = "N"           -> DEq(a.v, b.v)
       [] a.t = "BOOL"        -> a.v = b.v
       [] a.t = "NULL"        -> TRUE
       [] a.t = "L"           -> /\ Len(a.v) = Len(b.v)
                                 /\ \A i \in DOMAIN a.v : SameValue(a.v[i], b.v[i])
       [] a.t = "M"           -> /\ DOMAIN a.v = DOMAIN b.v
                                 /\ \A k \in DOMAIN a.v : SameValue(a.v[k], b.v[k])
       [] a.t \in {"SS","BS"} -> SetOf(a.v) = SetOf(b.v)
       [] a.t = "NS"          -> NumSetSub(a.v, b.v) /\ NumSetSub(b.v, a.v)
       [] OTHER               -> FALSE

SameItem(a, b) == /\ DOMAIN a = DOMAIN b
                  /\ \A k \in DOMAIN a : SameValue(a[k], b[k])

\* order inside one scalar type; callers guarantee a.t = b.t \in ScalarOrd
VLess(a, b) == IF a.t = "N" THEN DLess(a.v, b.v) ELSE SeqLess(a.v, b.v)
VLeq(a, b)  == IF a.t = "N" THEN DLeq(a.v, b.v)  ELSE SeqLeq(a.v, b.v)

\* well-formedness of a value (what DynamoDB accepts): sets non-empty and without duplicates,
\* numbers within range
RECURSIVE ValidValue(_)
ValidValue(a) ==
  CASE a.t = "N"  -> DValid(a.v)
    [] a.t = "L"  -> \A i \in DOMAIN a.v : ValidValue(a.v[i])
    [] a.t = "M"  -> \A k \in DOMAIN a.v : ValidValue(a.v[k])
    [] a.t \in {"SS","BS"} -> a.v # <<>> /\ Cardinality(SetOf(a.v)) = Len(a.v)
    [] a.t = "NS" -> /\ a.v # <<>>
                     /\ \A i, j \in DOMAIN a.v : i # j => ~DEq(a.v[i], a.v[j])
                     /\ \A i \in DOMAIN a.v : DValid(a.v[i])
    [] OTHER      -> TRUE

\* number of elements / bytes, as size() defines it
VSize(a) == CASE a.t \in {"S","B","L","SS","NS","BS"} -> Len(a.v)
              [] a.t = "M" -> Cardinality(DOMAIN a.v)
              [] OTHER -> 0

\* constructors used by the bounded models
Str(bytes) == [t |-> "S", v |-> bytes]
Bin(bytes) == [t |-> "B", v |-> bytes]
Num(n)     == [t |-> "N", v |-> IF n < 0 THEN [neg |-> TRUE, d |-> NatDigits(-n), e |-> 0]
                                         ELSE [neg |-> FALSE, d |-> NatDigits(n), e |-> 0]]
Bool(b)    == [t |-> "BOOL", v |-> b]
NullV      == [t |-> "NULL", v |-> 0]
=============================================================================
