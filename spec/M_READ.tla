--------------------------- MODULE M_READ ---------------------------
(* C02 / C04: every Query and Scan shape of a menu, and page walks with Limit 1..3 (with and without deleting
   the item named by the first LastEvaluatedKey), in every reachable content of a hash+range table with two
   global secondary indexes: gix on (g) and gsx on (g, s).  Partition names and sort keys that are prefixes of
   one another, several items sharing an index key, items outside the indexes.                            *)
EXTENDS ModelLib
CONSTANTS KeySet, WithWalks, WithReads

T1 == "tbl1"
A == <<97>>
AB == <<97, 98>>
K(hb, rb) == [h |-> Str(hb), r |-> Str(rb)]
AllKeys == << K(A, <<49>>), K(A, <<50>>), K(AB, <<49>>), K(A, <<49, 50>>) >>
Keys == { AllKeys[i] : i \in KeySet }
GP == Str(<<112>>)
GQ == Str(<<113>>)
Shapes == { [g |-> GP, s |-> Str(<<49>>), v |-> Num(1)], [g |-> GP, s |-> Str(<<50>>), v |-> Num(2)],
            [g |-> GQ, s |-> Str(<<49>>), v |-> Num(1)], [v |-> Num(2)] }
Items == { k @@ m : k \in Keys, m \in Shapes }

V1 == One(":one", Num(1))
FilterMenu == { <<NoFilter, <<>>>>, <<Cond(Cmp("=", Path("v"), Val(":one"))), V1>> }
ScanFilters == FilterMenu \cup { <<Cond(Fn("attribute_exists", <<Path("g")>>)), <<>>>> }

HEq(attr, val) == Cmp("=", Path(attr), Val(":hk"))
\* sort-key conditions: <<condition on attribute a, values>>
SortMenu(a) == {
  <<Cmp("=", Path(a), Val(":s1")), One(":s1", Str(<<49>>))>>,
  <<Cmp("<", Path(a), Val(":s1")), One(":s1", Str(<<50>>))>>,
  <<Cmp("<=", Path(a), Val(":s1")), One(":s1", Str(<<49, 50>>))>>,
  <<Cmp(">", Path(a), Val(":s1")), One(":s1", Str(<<49>>))>>,
  <<Cmp(">=", Path(a), Val(":s1")), One(":s1", Str(<<49, 50>>))>>,
  <<Between(Path(a), Val(":s1"), Val(":s2")), [n \in {":s1", ":s2"} |-> IF n = ":s1" THEN Str(<<49>>) ELSE Str(<<49, 50>>)]>>,
  <<Fn("begins_with", <<Path(a), Val(":s1")>>), One(":s1", Str(<<49>>))>>
}
Q(index, hattr, hval, sc, f, fwd) ==
  QueryOp("c1", T1, index, IF sc = <<>> THEN HEq(hattr, hval) ELSE And(HEq(hattr, hval), sc[1]),
          f[1], <<>>, One(":hk", hval) @@ (IF sc = <<>> THEN <<>> ELSE sc[2]) @@ f[2], fwd)

BaseQueries == { Q(NoIndex, "h", hv, sc, f, fwd) : hv \in {Str(A), Str(AB)}, sc \in {<<>>} \cup SortMenu("r"), f \in FilterMenu, fwd \in BOOLEAN }
GsxQueries  == { Q(Index("gsx"), "g", gv, sc, f, fwd) : gv \in {GP, GQ},
                 sc \in {<<>>} \cup { x \in SortMenu("s") : x[1].k = "cmp" => x[1].op \in {"=", ">"} }, f \in FilterMenu, fwd \in BOOLEAN }
GixQueries  == { Q(Index("gix"), "g", gv, <<>>, f, fwd) : gv \in {GP, GQ}, f \in FilterMenu, fwd \in BOOLEAN }
Scans == { ScanOp("c1", T1, ix, f[1], <<>>, f[2]) : ix \in {NoIndex, Index("gix"), Index("gsx")}, f \in ScanFilters }

\* reads with a ProjectionExpression (key attributes always among the projected ones): answered whole or cut down, and pure
Projected == { Scans2 @@ [proj |-> pr] : Scans2 \in { ScanOp("c1", T1, ix, NoFilter, <<>>, <<>>) : ix \in {NoIndex, Index("gsx")} },
                                        pr \in { <<"h", "r", "v">>, <<"h", "r", "g", "s", "zz">> } }
             \cup { Q(NoIndex, "h", Str(A), <<>>, <<NoFilter, <<>>>>, fwd) @@ [proj |-> <<"h", "r", "v">>] : fwd \in BOOLEAN }
             \cup { Q(Index("gsx"), "g", GP, <<>>, <<NoFilter, <<>>>>, TRUE) @@ [proj |-> <<"h", "r", "g", "s">>] }
WalkShapes == { ScanOp("c1", T1, ix, f[1], <<>>, f[2]) : ix \in {NoIndex, Index("gix"), Index("gsx")}, f \in FilterMenu }
              \cup { Q(NoIndex, "h", Str(A), <<>>, <<NoFilter, <<>>>>, fwd) : fwd \in BOOLEAN }
              \cup { Q(NoIndex, "h", Str(A), <<>>, <<Cond(Cmp("=", Path("v"), Val(":one"))), V1>>, TRUE) }
              \cup { Q(Index("gsx"), "g", GP, <<>>, <<NoFilter, <<>>>>, fwd) : fwd \in BOOLEAN }
              \cup { Q(Index("gix"), "g", GP, <<>>, <<NoFilter, <<>>>>, TRUE) }
              \cup { Q(Index("rvx"), "r", Str(<<49>>), <<>>, <<NoFilter, <<>>>>, fwd) : fwd \in BOOLEAN }
              \cup { ScanOp("c1", T1, Index("rvx"), NoFilter, <<>>, <<>>) }
Walks == { WalkOp(q, lim, del) : q \in WalkShapes, lim \in 1..3, del \in BOOLEAN }

\* rvx is the table's key inverted (r, h): every attribute of the index key is a table key attribute, so a LastEvaluatedKey of a read
\* through it carries nothing but the table key
SetupDef == << AddTable("c1", T1, "h", "r"), AddIndex("c1", T1, "gix", "g", ""), AddIndex("c1", T1, "gsx", "g", "s"), AddIndex("c1", T1, "rvx", "r", "h") >>
MenuDef == SetToSeq( { Put(T1, it) : it \in Items } \cup { Del(T1, k, FALSE) : k \in Keys } )
           \o (IF WithReads THEN SetToSeq(BaseQueries) \o SetToSeq(GsxQueries) \o SetToSeq(GixQueries) \o SetToSeq(Scans) \o SetToSeq(Projected) ELSE <<>>)
           \o (IF WithWalks THEN SetToSeq(Walks) ELSE <<>>)
BoundDef(d) == TRUE
=============================================================================
