--------------------------- MODULE M_RES ---------------------------
(* C16, reserved words: every word of the frozen 573-word list, in upper and in lower case, in every position a
   bare attribute name can take in a condition or an update expression; plus a few near-misses (a reserved word
   with a suffix, behind a name placeholder) that must NOT be rejected.  Text-level cases: the judge lexes the
   bytes and decides with Grammar!ReservedUse.                                                           *)
EXTENDS MiniDyn, Reserved, Json
CONSTANT Positions

Lower(w) == [i \in 1..Len(w) |-> IF w[i] >= 65 /\ w[i] <= 90 THEN w[i] + 32 ELSE w[i]]
B(str) == str
SP == <<32>>
EqV == <<32, 61, 32, 58, 118>>                 \* " = :v"
Item0 == [a |-> Str(<<120>>), m |-> Mk("M", [a |-> Str(<<120>>)])]
VV == [x \in {":v"} |-> Str(<<120>>)]
C(op, text, names, values) == [op |-> op, text |-> text, item |-> Item0, names |-> names, values |-> values, strict |-> TRUE]

\* position templates: <<kind, prefix bytes, suffix bytes, uses :v>>
CondPos == <<
  <<"MatchText", <<>>, EqV, TRUE>>,                                                   \* w = :v
  <<"MatchText", <<109, 46>>, EqV, TRUE>>,                                            \* m.w = :v
  <<"MatchText", <<58,118,32,61,32>>, <<>>, TRUE>>,                                   \* :v = w
  <<"MatchText", <<97,116,116,114,105,98,117,116,101,95,101,120,105,115,116,115,40>>, <<41>>, FALSE>>,      \* attribute_exists(w)
  <<"MatchText", <<97,32,61,32,58,118,32,65,78,68,32>>, EqV, TRUE>>,                  \* a = :v AND w = :v
  <<"MatchText", <<115,105,122,101,40>>, <<41,32,61,32,58,118>>, TRUE>>,              \* size(w) = :v
  <<"ApplyText", <<83,69,84,32>>, EqV, TRUE>>,                                        \* SET w = :v
  <<"ApplyText", <<83,69,84,32,109,46>>, EqV, TRUE>>,                                 \* SET m.w = :v
  <<"ApplyText", <<83,69,84,32,97,32,61,32>>, <<>>, FALSE>>,                          \* SET a = w
  <<"ApplyText", <<82,69,77,79,86,69,32>>, <<>>, FALSE>>,                             \* REMOVE w
  <<"ApplyText", <<65,68,68,32>>, <<32,58,118>>, TRUE>>,                              \* ADD w :v
  <<"ApplyText", <<68,69,76,69,84,69,32>>, <<32,58,118>>, TRUE>>,                     \* DELETE w :v
  <<"MatchText", <<>>, <<46,97>> \o EqV, TRUE>>,                                      \* w.a = :v      (head of a document path)
  <<"MatchText", <<>>, <<91,48,93>> \o EqV, TRUE>>,                                   \* w[0] = :v
  <<"ApplyText", <<83,69,84,32>>, <<46,97>> \o EqV, TRUE>>,                           \* SET w.a = :v
  <<"ApplyText", <<82,69,77,79,86,69,32>>, <<91,48,93>>, FALSE>>,                     \* REMOVE w[0]
  <<"MatchText", <<97,32,61,32,58,118,32,79,82,32>>, EqV, TRUE>>,                     \* a = :v OR w = :v    (the left operand is true)
  <<"MatchText", <<97,32,60,62,32,58,118,32,65,78,68,32>>, EqV, TRUE>> >>             \* a <> :v AND w = :v  (the left operand is false)
Words == ReservedWords \cup { Lower(w) : w \in ReservedWords }
Cases == { C(CondPos[i][1], CondPos[i][2] \o w \o CondPos[i][3], <<>>, IF CondPos[i][4] THEN VV ELSE <<>>) : i \in Positions, w \in Words }
  \* near misses: not reserved, must not be rejected on that account
  \cup { C("MatchText", w \o <<95,120>> \o EqV, <<>>, VV) : w \in { <<78,65,77,69>>, <<83,73,90,69>>, <<65,78,68>> } }        \* NAME_x, SIZE_x, AND_x
  \cup { C("MatchText", <<35,110>> \o EqV, [x \in {"#n"} |-> "a"], VV) }
ASSUME \A c \in Cases : PrintT(ToJson(c))
VARIABLE dummy
Init == dummy = 0
Next == UNCHANGED dummy
=============================================================================
