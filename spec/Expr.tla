--------------------------- MODULE Expr ---------------------------
(* Document paths, condition expressions and update expressions over abstract syntax trees.

   Paths      <<step, ...>>, step = [s |-> "n", n |-> name, i |-> 0]     .name / leading name
                                    [s |-> "a", n |-> "#alias", i |-> 0]  name placeholder
                                    [s |-> "i", n |-> "", i |-> k]        [k]
   Operands   [k |-> "path", p |-> path] | [k |-> "val", n |-> ":v"] | [k |-> "size", p |-> path]
   Conditions [k |-> "cmp", op, l, r] | [k |-> "between", x, lo, hi] | [k |-> "in", x, xs]
              [k |-> "and"|"or", l, r] | [k |-> "not", x] | [k |-> "fn", f, args]
   Updates    [set |-> <<[p, v]>>, remove |-> <<path>>, add |-> <<[p, v]>>, del |-> <<[p, v]>>]
              SET right-hand sides: operand | [k |-> "plus"|"minus", l, r]
                                  | [k |-> "ine", p, v] (if_not_exists) | [k |-> "lapp", l, r] (list_append)

   CondOut gives the SET of outcomes the properties allow: "T", "F", "E" (statically invalid: any error).
   Where DynamoDB's rule is not certain the set has two members (lenient positions, DESIGN.md D.2);
   generators stay away from those, the judge accepts either.                                          *)
EXTENDS Values

Absent == [p |-> FALSE, v |-> NullV]
Present(v) == [p |-> TRUE, v |-> v]
AsMap(item) == Mk("M", item)

----------------------------------------------------------------------------
(* paths *)
RECURSIVE ResolveOK(_,_), Resolve(_,_)
ResolveOK(path, names) == \A i \in DOMAIN path : path[i].s = "a" => path[i].n \in DOMAIN names
\* names maps "#alias" to a byte-free attribute name (TLA+ string)
Resolve(path, names) == [i \in DOMAIN path |->
                           IF path[i].s = "a" THEN [s |-> "n", n |-> names[path[i].n], i |-> 0] ELSE path[i]]

RECURSIVE GetIn(_,_)
GetIn(val, steps) ==
  IF steps = <<>> THEN Present(val)
  ELSE LET st == Head(steps) IN
       IF st.s = "n"
       THEN IF val.t = "M" /\ st.n \in DOMAIN val.m THEN GetIn(val.m[st.n], Tail(steps)) ELSE Absent
       ELSE IF val.t = "L" /\ st.i + 1 \in DOMAIN val.l THEN GetIn(val.l[st.i + 1], Tail(steps)) ELSE Absent
GetPath(item, rpath) == GetIn(AsMap(item), rpath)

MapPut(m, n, v) == [k \in (DOMAIN m) \cup {n} |-> IF k = n THEN v ELSE m[k]]
MapDel(m, ns)   == [k \in (DOMAIN m) \ ns |-> m[k]]

\* assign: parent must exist and have the right container type
RECURSIVE SetIn(_,_,_)
SetIn(val, steps, new) ==
  IF steps = <<>> THEN [ok |-> TRUE, v |-> new]
  ELSE LET st == Head(steps) IN
       IF st.s = "n"
       THEN IF val.t # "M" THEN [ok |-> FALSE, v |-> val]
            ELSE IF Len(steps) = 1 THEN [ok |-> TRUE, v |-> Mk("M", MapPut(val.m, st.n, new))]
            ELSE IF st.n \notin DOMAIN val.m THEN [ok |-> FALSE, v |-> val]
            ELSE LET r == SetIn(val.m[st.n], Tail(steps), new)
                 IN [ok |-> r.ok, v |-> Mk("M", MapPut(val.m, st.n, r.v))]
       ELSE IF val.t # "L" THEN [ok |-> FALSE, v |-> val]
            ELSE IF st.i + 1 \in DOMAIN val.l
                 THEN LET r == SetIn(val.l[st.i + 1], Tail(steps), new)
                      IN [ok |-> r.ok, v |-> Mk("L", [val.l EXCEPT ![st.i + 1] = r.v])]
                 ELSE IF Len(steps) = 1 THEN [ok |-> TRUE, v |-> Mk("L", Append(val.l, new))]
                 ELSE [ok |-> FALSE, v |-> val]

\* remove a set of paths, all of them referring to the ORIGINAL value (list indexes do not shift)
RECURSIVE RemIn(_,_)
RemIn(val, suffixes) ==
  IF suffixes = {} THEN val
  ELSE IF val.t = "M"
  THEN LET names == { s[1].n : s \in { x \in suffixes : x[1].s = "n" } }
           gone  == { n \in names : \E s \in suffixes : s[1].s = "n" /\ s[1].n = n /\ Len(s) = 1 }
           keep  == (DOMAIN val.m) \ gone
       IN Mk("M", [k \in keep |->
              RemIn(val.m[k], { Tail(s) : s \in { x \in suffixes : x[1].s = "n" /\ x[1].n = k /\ Len(x) > 1 } })])
  ELSE IF val.t = "L"
  THEN LET gone == { i \in DOMAIN val.l : \E s \in suffixes : s[1].s = "i" /\ s[1].i + 1 = i /\ Len(s) = 1 }
           sub(i) == RemIn(val.l[i], { Tail(s) : s \in { x \in suffixes : x[1].s = "i" /\ x[1].i + 1 = i /\ Len(x) > 1 } })
           F[i \in 0..Len(val.l)] == IF i = 0 THEN <<>>
                                     ELSE IF i \in gone THEN F[i-1] ELSE Append(F[i-1], sub(i))
       IN Mk("L", F[Len(val.l)])
  ELSE val

IsPrefixPath(a, b) == Len(a) <= Len(b) /\ \A i \in DOMAIN a :
                         /\ a[i].s = b[i].s
                         /\ IF a[i].s = "i" THEN a[i].i = b[i].i ELSE a[i].n = b[i].n
Overlap(a, b) == IsPrefixPath(a, b) \/ IsPrefixPath(b, a)

----------------------------------------------------------------------------
(* conditions *)
NotO(A)    == { IF x = "E" THEN "E" ELSE IF x = "T" THEN "F" ELSE "T" : x \in A }
AndO(A, B) == { IF x = "E" \/ y = "E" THEN "E" ELSE IF x = "T" /\ y = "T" THEN "T" ELSE "F" : x \in A, y \in B }
OrO(A, B)  == { IF x = "E" \/ y = "E" THEN "E" ELSE IF x = "T" \/ y = "T" THEN "T" ELSE "F" : x \in A, y \in B }
B2O(b)     == IF b THEN {"T"} ELSE {"F"}
Lenient    == {"F", "E"}

\* operand -> [st |-> "ok" | "missing" | "err" | "soft", v |-> value, lit |-> BOOLEAN]
\* "soft" marks size() of a missing or unsized attribute (comparison FALSE or error, D.2)
Opd(o, item, names, values) ==
  CASE o.k = "val"  -> IF o.n \in DOMAIN values THEN [st |-> "ok", v |-> values[o.n], lit |-> TRUE]
                       ELSE [st |-> "err", v |-> NullV, lit |-> TRUE]
    [] o.k = "path" -> IF ~ResolveOK(o.p, names) THEN [st |-> "err", v |-> NullV, lit |-> FALSE]
                       ELSE LET g == GetPath(item, Resolve(o.p, names))
                            IN IF g.p THEN [st |-> "ok", v |-> g.v, lit |-> FALSE]
                               ELSE [st |-> "missing", v |-> NullV, lit |-> FALSE]
    [] o.k = "size" -> IF ~ResolveOK(o.p, names) THEN [st |-> "err", v |-> NullV, lit |-> FALSE]
                       ELSE LET g == GetPath(item, Resolve(o.p, names))
                            IN IF g.p /\ g.v.t \in {"S","B","L","M","SS","NS","BS"}
                               THEN [st |-> "ok", v |-> Mk("N", DOfNat(VSize(g.v))), lit |-> FALSE]
                               ELSE [st |-> "soft", v |-> NullV, lit |-> FALSE]
    [] OTHER        -> [st |-> "err", v |-> NullV, lit |-> FALSE]

CmpO(op, a, b) ==
  IF a.st = "err" \/ b.st = "err" THEN {"E"}
  ELSE IF a.st = "soft" \/ b.st = "soft" THEN Lenient
  ELSE IF op \notin {"=", "<>"} /\ ((a.st = "ok" /\ a.lit /\ a.v.t \notin ScalarOrd) \/ (b.st = "ok" /\ b.lit /\ b.v.t \notin ScalarOrd)) THEN Lenient
  ELSE IF a.st = "missing" \/ b.st = "missing" THEN B2O(op = "<>")
  ELSE IF op = "="  THEN B2O(SameValue(a.v, b.v))
  ELSE IF op = "<>" THEN B2O(~SameValue(a.v, b.v))
  ELSE IF a.v.t = b.v.t /\ a.v.t \in ScalarOrd
       THEN B2O(CASE op = "<"  -> VLess(a.v, b.v)
                  [] op = "<=" -> VLeq(a.v, b.v)
                  [] op = ">"  -> VLess(b.v, a.v)
                  [] op = ">=" -> VLeq(b.v, a.v)
                  [] OTHER     -> FALSE)
       ELSE IF (a.lit /\ a.v.t \notin ScalarOrd) \/ (b.lit /\ b.v.t \notin ScalarOrd) THEN Lenient
       ELSE {"F"}

BetweenO(x, lo, hi) ==
  IF x.st = "err" \/ lo.st = "err" \/ hi.st = "err" THEN {"E"}
  ELSE IF x.st = "soft" \/ lo.st = "soft" \/ hi.st = "soft" THEN Lenient
  ELSE IF x.st = "missing" \/ lo.st = "missing" \/ hi.st = "missing" THEN {"F"}
  ELSE IF x.v.t = lo.v.t /\ x.v.t = hi.v.t /\ x.v.t \in ScalarOrd
       THEN B2O(VLeq(lo.v, x.v) /\ VLeq(x.v, hi.v))
       ELSE IF (lo.lit /\ hi.lit /\ lo.v.t # hi.v.t) \/ (lo.lit /\ lo.v.t \notin ScalarOrd)
               \/ (hi.lit /\ hi.v.t \notin ScalarOrd) THEN Lenient
       ELSE {"F"}

ContainsRule(p, o) ==
  CASE p.t = "S"  /\ o.t = "S" -> B2O(IsSubB(o.s, p.s))
    [] p.t = "B"  /\ o.t = "B" -> B2O(IsSubB(o.b, p.b))
    [] p.t = "SS" /\ o.t = "S" -> B2O(o.s \in SetOf(p.ss))
    [] p.t = "BS" /\ o.t = "B" -> B2O(o.b \in SetOf(p.bs))
    [] p.t = "NS" /\ o.t = "N" -> B2O(\E i \in DOMAIN p.ns : DEq(p.ns[i], o.n))
    [] p.t = "L"               -> B2O(\E i \in DOMAIN p.l : SameValue(p.l[i], o))
    [] OTHER                   -> Lenient

TypeNameOK(v) == v.t = "S" /\ v.s \in { <<83>>, <<78>>, <<66>>, <<66,79,79,76>>, <<78,85,76,76>>, <<76>>, <<77>>,
                                         <<83,83>>, <<78,83>>, <<66,83>> }
TagBytes(t) == CASE t = "S" -> <<83>> [] t = "N" -> <<78>> [] t = "B" -> <<66>> [] t = "BOOL" -> <<66,79,79,76>>
                 [] t = "NULL" -> <<78,85,76,76>> [] t = "L" -> <<76>> [] t = "M" -> <<77>>
                 [] t = "SS" -> <<83,83>> [] t = "NS" -> <<78,83>> [] t = "BS" -> <<66,83>>

\* A function whose first argument is not a document path (attribute_exists(:v), begins_with(size(a), :v)), or attribute_type
\* with a path as type name: DynamoDB refuses some of these and evaluates others; the properties say nothing about them, so
\* every outcome is allowed (only totality is demanded of the code there).
AnyO == {"T", "F", "E"}
FnO(f, args, item, names, values) ==
  LET A(i) == Opd(args[i], item, names, values) IN
  CASE f \in {"attribute_exists", "attribute_not_exists"} ->
         IF Len(args) # 1 THEN {"E"}
         ELSE IF args[1].k # "path" THEN AnyO
         ELSE IF A(1).st = "err" THEN {"E"}
         ELSE B2O((A(1).st = "ok") = (f = "attribute_exists"))
    [] f = "attribute_type" ->
         IF Len(args) # 2 THEN {"E"}
         ELSE IF args[1].k # "path" \/ args[2].k # "val" THEN AnyO
         ELSE IF A(1).st = "err" \/ A(2).st = "err" THEN {"E"}
         ELSE IF ~TypeNameOK(A(2).v) THEN {"E"}
         ELSE IF A(1).st = "missing" THEN {"F"}
         ELSE B2O(TagBytes(A(1).v.t) = A(2).v.s)
    [] f = "begins_with" ->
         IF Len(args) # 2 THEN {"E"}
         ELSE IF args[1].k # "path" THEN AnyO
         ELSE IF A(1).st = "err" \/ A(2).st = "err" THEN {"E"}
         ELSE IF A(2).st = "soft" THEN Lenient
         ELSE IF A(2).st = "ok" /\ A(2).lit /\ A(2).v.t \notin {"S","B"} THEN (IF A(1).st = "missing" THEN Lenient ELSE {"E"})
         ELSE IF A(1).st = "missing" THEN {"F"}
         ELSE IF A(2).st = "missing" THEN Lenient       \* the operand (not the attribute looked at) is absent: false or an error
         ELSE IF A(1).v.t = A(2).v.t /\ A(1).v.t \in {"S","B"} THEN B2O(IsPrefixB(Pay(A(2).v), Pay(A(1).v)))
         ELSE Lenient
    [] f = "contains" ->
         IF Len(args) # 2 THEN {"E"}
         ELSE IF args[1].k # "path" THEN AnyO
         ELSE IF A(1).st = "err" \/ A(2).st = "err" THEN {"E"}
         ELSE IF A(2).st = "soft" THEN Lenient
         ELSE IF A(1).st = "missing" THEN {"F"}
         ELSE IF A(2).st = "missing" THEN Lenient
         ELSE ContainsRule(A(1).v, A(2).v)
    [] OTHER -> {"E"}

RECURSIVE CondOut(_,_,_,_)
CondOut(c, item, names, values) ==
  CASE c.k = "cmp"     -> CmpO(c.op, Opd(c.l, item, names, values), Opd(c.r, item, names, values))
    [] c.k = "between" -> BetweenO(Opd(c.x, item, names, values), Opd(c.lo, item, names, values),
                                   Opd(c.hi, item, names, values))
    [] c.k = "in"      -> LET x  == Opd(c.x, item, names, values)
                              ys == [i \in DOMAIN c.xs |-> Opd(c.xs[i], item, names, values)]
                          IN IF x.st = "err" \/ (\E i \in DOMAIN ys : ys[i].st = "err") \/ c.xs = <<>> THEN {"E"}
                             ELSE IF x.st = "soft" \/ (\E i \in DOMAIN ys : ys[i].st = "soft") THEN Lenient
                             ELSE IF x.st = "missing" THEN {"F"}
                             ELSE B2O(\E i \in DOMAIN ys : ys[i].st = "ok" /\ SameValue(x.v, ys[i].v))
    [] c.k = "and"     -> AndO(CondOut(c.l, item, names, values), CondOut(c.r, item, names, values))
    [] c.k = "or"      -> OrO(CondOut(c.l, item, names, values), CondOut(c.r, item, names, values))
    [] c.k = "not"     -> NotO(CondOut(c.x, item, names, values))
    [] c.k = "fn"      -> FnO(c.f, c.args, item, names, values)
    [] OTHER           -> {"E"}

\* placeholders mentioned
PathNames(p) == { p[i].n : i \in { j \in DOMAIN p : p[j].s = "a" } }
OpdNames(o) == IF o.k \in {"path", "size"} THEN PathNames(o.p) ELSE {}
OpdVals(o)  == IF o.k = "val" THEN {o.n} ELSE {}
RECURSIVE CondNames(_), CondVals(_)
CondNames(c) ==
  CASE c.k = "cmp"     -> OpdNames(c.l) \cup OpdNames(c.r)
    [] c.k = "between" -> OpdNames(c.x) \cup OpdNames(c.lo) \cup OpdNames(c.hi)
    [] c.k = "in"      -> OpdNames(c.x) \cup UNION { OpdNames(c.xs[i]) : i \in DOMAIN c.xs }
    [] c.k \in {"and", "or"} -> CondNames(c.l) \cup CondNames(c.r)
    [] c.k = "not"     -> CondNames(c.x)
    [] c.k = "fn"      -> UNION { OpdNames(c.args[i]) : i \in DOMAIN c.args }
    [] OTHER           -> {}
CondVals(c) ==
  CASE c.k = "cmp"     -> OpdVals(c.l) \cup OpdVals(c.r)
    [] c.k = "between" -> OpdVals(c.x) \cup OpdVals(c.lo) \cup OpdVals(c.hi)
    [] c.k = "in"      -> OpdVals(c.x) \cup UNION { OpdVals(c.xs[i]) : i \in DOMAIN c.xs }
    [] c.k \in {"and", "or"} -> CondVals(c.l) \cup CondVals(c.r)
    [] c.k = "not"     -> CondVals(c.x)
    [] c.k = "fn"      -> UNION { OpdVals(c.args[i]) : i \in DOMAIN c.args }
    [] OTHER           -> {}

----------------------------------------------------------------------------
(* updates *)
RECURSIVE Rhs(_,_,_,_)
Rhs(o, item, names, values) ==   \* [ok, v]; always evaluated on the PRE-update item
  CASE o.k = "val"  -> IF o.n \in DOMAIN values THEN [ok |-> TRUE, v |-> values[o.n]] ELSE [ok |-> FALSE, v |-> NullV]
    [] o.k = "path" -> IF ~ResolveOK(o.p, names) THEN [ok |-> FALSE, v |-> NullV]
                       ELSE LET g == GetPath(item, Resolve(o.p, names)) IN [ok |-> g.p, v |-> g.v]
    [] o.k \in {"plus", "minus"} ->
         LET a == Rhs(o.l, item, names, values)
             b == Rhs(o.r, item, names, values)
         IN IF ~a.ok \/ ~b.ok THEN [ok |-> FALSE, v |-> NullV]
            ELSE IF a.v.t # "N" \/ b.v.t # "N" THEN [ok |-> FALSE, v |-> NullV]
            ELSE LET r == IF o.k = "plus" THEN DAdd(a.v.n, b.v.n) ELSE DSub(a.v.n, b.v.n)
                 IN [ok |-> DValid(r), v |-> Mk("N", r)]
    [] o.k = "ine"  -> IF ~ResolveOK(o.p, names) THEN [ok |-> FALSE, v |-> NullV]
                       ELSE LET g == GetPath(item, Resolve(o.p, names))
                            IN IF g.p THEN [ok |-> TRUE, v |-> g.v] ELSE Rhs(o.v, item, names, values)
    [] o.k = "lapp" -> LET a == Rhs(o.l, item, names, values)
                           b == Rhs(o.r, item, names, values)
                       IN IF ~a.ok \/ ~b.ok THEN [ok |-> FALSE, v |-> NullV]
                          ELSE IF a.v.t # "L" \/ b.v.t # "L" THEN [ok |-> FALSE, v |-> NullV]
                          ELSE [ok |-> TRUE, v |-> Mk("L", a.v.l \o b.v.l)]
    [] OTHER        -> [ok |-> FALSE, v |-> NullV]

\* if_not_exists(path, default) whose path EXISTS while the default cannot be evaluated (list_append on a missing attribute ...):
\* the value of the path, or an error because the default is looked at anyway - the properties do not say
RECURSIVE SoftRhs(_,_,_,_)
SoftRhs(o, item, names, values) ==
  CASE o.k \in {"plus", "minus", "lapp"} -> SoftRhs(o.l, item, names, values) \/ SoftRhs(o.r, item, names, values)
    [] o.k = "ine" -> ResolveOK(o.p, names) /\
                      (IF GetPath(item, Resolve(o.p, names)).p THEN ~Rhs(o.v, item, names, values).ok ELSE SoftRhs(o.v, item, names, values))
    [] OTHER -> FALSE
SoftDefault(u, item, names, values) == \E i \in DOMAIN u.set : SoftRhs(u.set[i].v, item, names, values)

SetTypes == {"SS", "NS", "BS"}
ElemEq(t, x, y) == IF t = "NS" THEN DEq(x, y) ELSE x = y
UnionSeq(t, a, b) ==   \* a followed by the members of b not in a
  LET F[i \in 0..Len(b)] == IF i = 0 THEN a
                            ELSE IF \E j \in DOMAIN F[i-1] : ElemEq(t, F[i-1][j], b[i]) THEN F[i-1]
                            ELSE Append(F[i-1], b[i])
  IN F[Len(b)]
DiffSeq(t, a, b) ==
  LET F[i \in 0..Len(a)] == IF i = 0 THEN <<>>
                            ELSE IF \E j \in DOMAIN b : ElemEq(t, a[i], b[j]) THEN F[i-1]
                            ELSE Append(F[i-1], a[i])
  IN F[Len(a)]

AllTargets(u) == [i \in DOMAIN u.set |-> u.set[i].p] \o u.remove
                 \o [i \in DOMAIN u.add |-> u.add[i].p] \o [i \in DOMAIN u.del |-> u.del[i].p]

\* ApplyU(u, item, names, values, keyAttrs) = [ok |-> BOOLEAN, item |-> resulting item]
ApplyU(u, item, names, values, keyAttrs) ==
  LET targets == AllTargets(u)
      bad == [ok |-> FALSE, item |-> item]
  IN
  IF targets = <<>> THEN bad
  ELSE IF \E i \in DOMAIN targets : ~ResolveOK(targets[i], names) THEN bad
  ELSE
  LET rt == [i \in DOMAIN targets |-> Resolve(targets[i], names)]
  IN
  IF \E i, j \in DOMAIN rt : i # j /\ Overlap(rt[i], rt[j]) THEN bad
  ELSE IF \E i \in DOMAIN rt : rt[i] = <<>> \/ rt[i][1].s # "n" \/ rt[i][1].n \in keyAttrs THEN bad
  ELSE IF \E i \in DOMAIN u.add : Len(u.add[i].p) # 1 THEN bad
  ELSE IF \E i \in DOMAIN u.del : Len(u.del[i].p) # 1 THEN bad
  ELSE
  LET sv == [i \in DOMAIN u.set |-> Rhs(u.set[i].v, item, names, values)]
      av == [i \in DOMAIN u.add |-> Rhs(u.add[i].v, item, names, values)]
      dv == [i \in DOMAIN u.del |-> Rhs(u.del[i].v, item, names, values)]
  IN
  IF (\E i \in DOMAIN sv : ~sv[i].ok) \/ (\E i \in DOMAIN av : ~av[i].ok) \/ (\E i \in DOMAIN dv : ~dv[i].ok) THEN bad
  ELSE
  LET \* SET, in order, on the evolving value (targets do not overlap)
      S[i \in 0..Len(u.set)] ==
         IF i = 0 THEN [ok |-> TRUE, v |-> AsMap(item)]
         ELSE IF ~S[i-1].ok THEN S[i-1]
         ELSE SetIn(S[i-1].v, Resolve(u.set[i].p, names), sv[i].v)
      afterSet == S[Len(u.set)]
      AddOne(m, n, v) ==
         IF n \notin DOMAIN m THEN (IF v.t = "N" \/ v.t \in SetTypes THEN [ok |-> TRUE, m |-> MapPut(m, n, v)]
                                    ELSE [ok |-> FALSE, m |-> m])
         ELSE LET cur == m[n] IN
              IF cur.t = "N" /\ v.t = "N"
              THEN LET r == DAdd(cur.n, v.n) IN [ok |-> DValid(r), m |-> MapPut(m, n, Mk("N", r))]
              ELSE IF cur.t \in SetTypes /\ v.t = cur.t
              THEN [ok |-> TRUE, m |-> MapPut(m, n, Mk(cur.t, UnionSeq(cur.t, Pay(cur), Pay(v))))]
              ELSE [ok |-> FALSE, m |-> m]
      A[i \in 0..Len(u.add)] ==
         IF i = 0 THEN [ok |-> afterSet.ok, m |-> afterSet.v.m]
         ELSE IF ~A[i-1].ok THEN A[i-1]
         ELSE AddOne(A[i-1].m, Resolve(u.add[i].p, names)[1].n, av[i].v)
      afterAdd == A[Len(u.add)]
      DelOne(m, n, v) ==
         IF v.t \notin SetTypes THEN [ok |-> FALSE, m |-> m]
         ELSE IF n \notin DOMAIN m THEN [ok |-> TRUE, m |-> m]
         ELSE LET cur == m[n] IN
              IF cur.t # v.t THEN [ok |-> FALSE, m |-> m]
              ELSE LET rest == DiffSeq(cur.t, Pay(cur), Pay(v))
                   IN IF rest = <<>> THEN [ok |-> TRUE, m |-> MapDel(m, {n})]
                      ELSE [ok |-> TRUE, m |-> MapPut(m, n, Mk(cur.t, rest))]
      D[i \in 0..Len(u.del)] ==
         IF i = 0 THEN afterAdd
         ELSE IF ~D[i-1].ok THEN D[i-1]
         ELSE DelOne(D[i-1].m, Resolve(u.del[i].p, names)[1].n, dv[i].v)
      afterDel == D[Len(u.del)]
      rem == { Resolve(u.remove[i], names) : i \in DOMAIN u.remove }
  IN IF ~afterDel.ok THEN bad
     ELSE [ok |-> TRUE, item |-> RemIn(Mk("M", afterDel.m), rem).m]

RECURSIVE RhsNames(_), RhsVals(_)
RhsNames(o) == CASE o.k = "path" -> PathNames(o.p)
                 [] o.k \in {"plus", "minus", "lapp"} -> RhsNames(o.l) \cup RhsNames(o.r)
                 [] o.k = "ine" -> PathNames(o.p) \cup RhsNames(o.v)
                 [] OTHER -> {}
RhsVals(o) == CASE o.k = "val" -> {o.n}
                [] o.k \in {"plus", "minus", "lapp"} -> RhsVals(o.l) \cup RhsVals(o.r)
                [] o.k = "ine" -> RhsVals(o.v)
                [] OTHER -> {}
UpdNames(u) == UNION { PathNames(AllTargets(u)[i]) : i \in DOMAIN AllTargets(u) }
               \cup UNION { RhsNames(u.set[i].v) : i \in DOMAIN u.set }
               \cup UNION { RhsNames(u.add[i].v) : i \in DOMAIN u.add }
               \cup UNION { RhsNames(u.del[i].v) : i \in DOMAIN u.del }
UpdVals(u) == UNION { RhsVals(u.set[i].v) : i \in DOMAIN u.set }
              \cup UNION { RhsVals(u.add[i].v) : i \in DOMAIN u.add }
              \cup UNION { RhsVals(u.del[i].v) : i \in DOMAIN u.del }
=============================================================================
