--------------------------- MODULE M_NUM ---------------------------
(* C12: numbers as exact decimals.  Numeral pairs from a spelling table (canonical, leading / trailing zeros,
   exponent forms, -0, 2^53 and 2^53+1, 0.1 / 0.2 / 0.3, 9 vs 10, 38 digits) in every position a number can take in
   an expression: = <> < <= > >= BETWEEN IN, contains on a number set, SET a = a + :n / a - :n, ADD, number-set
   ADD / DELETE; plus updates of an unrelated attribute on items holding such numbers (they must stay untouched). *)
EXTENDS MiniDyn, Json
Nm(neg, d, e, sp) == [t |-> "N", n |-> [neg |-> neg, d |-> d, e |-> e, sp |-> sp]]
Big(last) == Nm(FALSE, <<9,0,0,7,1,9,9,2,5,4,7,4,0,9,9,last>>, 0, <<57,48,48,55,49,57,57,50,53,52,55,52,48,57,57,48 + last>>)
Z(k) == [i \in 1..k |-> 48]
D38(last) == Nm(FALSE, [i \in 1..38 |-> IF i = 38 THEN last ELSE 1], 0, [i \in 1..38 |-> IF i = 38 THEN 48 + last ELSE 49])
Nums == << Nm(FALSE, <<1>>, 0, <<49>>), Nm(FALSE, <<1,0>>, -1, <<49,46,48>>), Nm(FALSE, <<1>>, 0, <<49,101,48>>), Nm(FALSE, <<0,1>>, 0, <<48,49>>),
           Nm(FALSE, <<0>>, 0, <<48>>), Nm(TRUE, <<0>>, 0, <<45,48>>), Nm(FALSE, <<9>>, 0, <<57>>), Nm(FALSE, <<1,0>>, 0, <<49,48>>), Nm(FALSE, <<1>>, 1, <<49,101,49>>),
           Nm(FALSE, <<1>>, -1, <<48,46,49>>), Nm(FALSE, <<2>>, -1, <<48,46,50>>), Nm(FALSE, <<3>>, -1, <<48,46,51>>), Nm(TRUE, <<1,5>>, -1, <<45,49,46,53>>),
           Big(2), Big(3), D38(1), D38(2),
           \* beyond the int64 range with one or two significant digits; closer together than 1e-9; the ends of the exponent range
           Nm(FALSE, <<1>>, 19, <<49>> \o Z(19)), Nm(FALSE, <<1,6>>, 18, <<49,54>> \o Z(18)), Nm(TRUE, <<1>>, 19, <<45,49>> \o Z(19)),
           Nm(FALSE, <<2>>, -10, <<48,46>> \o Z(9) \o <<50>>), Nm(FALSE, <<3>>, -10, <<48,46>> \o Z(9) \o <<51>>),
           Nm(FALSE, <<1>>, 125, <<49,69,49,50,53>>), Nm(FALSE, <<1>>, -130, <<49,69,45,49,51,48>>),
           \* leading zeros in front of digits that also read as octal: 010 is ten, 017 is seventeen
           Nm(FALSE, <<0,1,0>>, 0, <<48,49,48>>), Nm(FALSE, <<0,1,7>>, 0, <<48,49,55>>),
           \* a fraction binary floating point carries exactly, with another number of decimal places than -1.5
           Nm(FALSE, <<1,2,5>>, -2, <<49,46,50,53>>) >>
NS == { Nums[i] : i \in DOMAIN Nums }
NS1 == NS \ { Nums[13] }     \* the second member of the generated number sets
P(n) == <<[s |-> "n", n |-> n, i |-> 0]>>
Path(n) == [k |-> "path", p |-> P(n)]
Val(n) == [k |-> "val", n |-> n]
NoUpd == [set |-> <<>>, remove |-> <<>>, add |-> <<>>, del |-> <<>>]
M(ast, item, values) == [op |-> "Match", ast |-> ast, item |-> item, names |-> <<>>, values |-> values]
A(ast, item, values) == [op |-> "Apply", ast |-> ast, item |-> item, names |-> <<>>, values |-> values]
V1(v) == [x \in {":v"} |-> v]
V2(v, w) == [x \in {":v", ":w"} |-> IF x = ":v" THEN v ELSE w]
It(x) == [a |-> x, k |-> Str(<<122>>)]
Ops == {"=", "<>", "<", "<=", ">", ">="}
NSet(x, y) == Mk("NS", <<x.n, y.n>>)
Cases ==
     { M([k |-> "cmp", op |-> op, l |-> Path("a"), r |-> Val(":v")], It(x), V1(y)) : op \in Ops, x \in NS, y \in NS }
  \cup { M([k |-> "between", x |-> Path("a"), lo |-> Val(":v"), hi |-> Val(":w")], It(x), V2(y, z)) : x \in NS, y \in {Nums[5], Nums[7], Big(2)}, z \in {Nums[8], Big(3), D38(2)} }
  \cup { M([k |-> "in", x |-> Path("a"), xs |-> <<Val(":v"), Val(":w")>>], It(x), V2(y, Nums[13])) : x \in NS, y \in NS }
  \cup { M([k |-> "fn", f |-> "contains", args |-> <<Path("s"), Val(":v")>>], [s |-> NSet(x, Nums[13]), k |-> Str(<<122>>)], V1(y)) : x \in NS1, y \in NS }
  \cup { A([NoUpd EXCEPT !.set = <<[p |-> P("a"), v |-> [k |-> kk, l |-> Path("a"), r |-> Val(":v")]]>>], It(x), V1(y)) : kk \in {"plus", "minus"}, x \in NS, y \in NS }
  \cup { A([NoUpd EXCEPT !.add = <<[p |-> P("a"), v |-> Val(":v")]>>], It(x), V1(y)) : x \in NS, y \in NS }
  \cup { A([NoUpd EXCEPT !.add = <<[p |-> P("s"), v |-> Val(":v")]>>], [s |-> NSet(x, Nums[13]), k |-> Str(<<122>>)], V1(Mk("NS", <<y.n>>))) : x \in NS1, y \in NS }
  \cup { A([NoUpd EXCEPT !.del = <<[p |-> P("s"), v |-> Val(":v")]>>], [s |-> NSet(x, Nums[13]), k |-> Str(<<122>>)], V1(Mk("NS", <<y.n>>))) : x \in NS1, y \in NS }
  \* an update that does not target the number must leave it exactly as it was
  \cup { A([NoUpd EXCEPT !.set = <<[p |-> P("k"), v |-> Val(":v")]>>], It(x) @@ [l |-> Mk("L", <<x>>), m |-> Mk("M", [q |-> x]), s |-> NSet(x, Nums[13])], V1(Str(<<121>>))) : x \in NS1 }
ASSUME \A c \in Cases : PrintT(ToJson(c))
ASSUME PrintT(ToJson([kind |-> "count", n |-> Cardinality(Cases)]))
VARIABLE dummy
Init == dummy = 0
Next == UNCHANGED dummy
=============================================================================
