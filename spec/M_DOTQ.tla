--------------------------- MODULE M_DOTQ ---------------------------
(* C02: partitions whose names extend one another across a separator-like byte ("p" and "p.q", "acme" and "acme#eu",
   "example.com" and "example.com.au") WITHOUT colliding keys: the items of one partition are then not contiguous in any separator-joined
   ordering, and a Query must still return exactly its partition, in order, forward and backward, paged or not.     *)
EXTENDS ModelLib
T1 == "tbl1"
Seps == {46, 45, 35, 32, 47, 126}      \* . - # space / ~ : below and above the separator in byte order
P1 == Str(<<112>>)
P2(c) == Str(<<112, c, 113>>)
It(h, rb, n) == [h |-> h, r |-> Str(rb), who |-> Num(n)]
HK == Cmp("=", Path("h"), Val(":h"))
Q(hv, fwd) == QueryOp("c1", T1, NoIndex, HK, NoFilter, <<>>, One(":h", hv), fwd)
QR(hv, op, rb) == QueryOp("c1", T1, NoIndex, And(HK, Cmp(op, Path("r"), Val(":r"))), NoFilter, <<>>, [n \in {":h", ":r"} |-> IF n = ":h" THEN hv ELSE Str(rb)], TRUE)
\* the request with an ExclusiveStartKey that is present but empty (the empty LastEvaluatedKey of the last page fed back)
EE(q) == [q EXCEPT !.esk = [some |-> TRUE, k |-> <<>>]]
TableTrace(c) ==
  << AddTable("c1", T1, "h", "r"), Put(T1, It(P1, <<49>>, 1)), Put(T1, It(P1, <<114>>, 2)), Put(T1, It(P1, <<122>>, 3)), Put(T1, It(P2(c), <<49>>, 4)), Put(T1, It(P2(c), <<115>>, 5)),
     Q(P1, TRUE), Q(P1, FALSE), Q(P2(c), TRUE), Q(P2(c), FALSE), QR(P1, ">=", <<114>>), QR(P1, "<", <<122>>), QR(P2(c), ">", <<49>>),
     WalkOp(Q(P1, TRUE), 1, FALSE), WalkOp(Q(P1, FALSE), 2, FALSE), WalkOp(Q(P2(c), TRUE), 1, FALSE), ScanOp("c1", T1, NoIndex, NoFilter, <<>>, <<>>),
     EE(Q(P1, FALSE)), EE(Q(P2(c), TRUE)), EE(ScanOp("c1", T1, NoIndex, NoFilter, <<>>, <<>>)) >>
\* the same through secondary indexes: index partitions "p" and "p<c>q" (and sort keys that extend one another), several
\* items per index key; every observation reads each index forward and backward, whole and per partition
GK == Cmp("=", Path("g"), Val(":g"))
IX(n) == [some |-> TRUE, n |-> n]
QI(ix, gv, fwd) == QueryOp("c1", T1, IX(ix), GK, NoFilter, <<>>, One(":g", gv), fwd)
Ig(hb, gv, sb, n) == [h |-> Str(hb), g |-> gv, s |-> Str(sb), who |-> Num(n)]
IndexTrace(c) ==
  << AddTable("c1", T1, "h", ""), AddIndex("c1", T1, "gix", "g", ""), AddIndex("c1", T1, "gsx", "g", "s"),
     Put(T1, Ig(<<97>>, P1, <<49>>, 1)), Put(T1, Ig(<<98>>, P2(c), <<49>>, 2)), Put(T1, Ig(<<99>>, P1, <<49, c, 50>>, 3)),
     Put(T1, Ig(<<100>>, P2(c), <<48>>, 4)), Put(T1, Ig(<<101>>, P1, <<48>>, 5)),
     QI("gix", P1, TRUE), QI("gix", P2(c), TRUE), QI("gsx", P1, TRUE), QI("gsx", P1, FALSE), QI("gsx", P2(c), FALSE),
     ScanOp("c1", T1, IX("gix"), NoFilter, <<>>, <<>>), ScanOp("c1", T1, IX("gsx"), NoFilter, <<>>, <<>>),
     WalkOp(QI("gsx", P1, TRUE), 1, FALSE), WalkOp(QI("gix", P1, FALSE), 2, FALSE),
     EE(QI("gsx", P1, TRUE)), EE(QI("gix", P2(c), FALSE)), EE(ScanOp("c1", T1, IX("gsx"), NoFilter, <<>>, <<>>)),
     Del(T1, [h |-> Str(<<97>>)], FALSE), QI("gix", P1, TRUE), QI("gsx", P2(c), TRUE) >>
ASSUME \A c \in Seps : PrintT(ToJson([kind |-> "trace", ops |-> TableTrace(c)])) /\ PrintT(ToJson([kind |-> "trace", ops |-> IndexTrace(c)]))
SetupDef == <<>>
MenuDef == <<>>
BoundDef(d) == TRUE
=============================================================================
