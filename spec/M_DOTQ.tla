--------------------------- MODULE M_DOTQ ---------------------------
(* C02: partitions whose names extend one another across the key separator ("p" and "p.q", "example.com" and
   "example.com.au") WITHOUT colliding keys: the items of one partition are then not contiguous in any separator-joined
   ordering, and a Query must still return exactly its partition, in order, forward and backward, paged or not.     *)
EXTENDS ModelLib
T1 == "tbl1"
P1 == Str(<<112>>)
P2 == Str(<<112, 46, 113>>)
It(h, rb, n) == [h |-> h, r |-> Str(rb), who |-> Num(n)]
HK == Cmp("=", Path("h"), Val(":h"))
Q(hv, fwd) == QueryOp("c1", T1, NoIndex, HK, NoFilter, <<>>, One(":h", hv), fwd)
QR(hv, op, rb) == QueryOp("c1", T1, NoIndex, And(HK, Cmp(op, Path("r"), Val(":r"))), NoFilter, <<>>, [n \in {":h", ":r"} |-> IF n = ":h" THEN hv ELSE Str(rb)], TRUE)
Trace1 == << AddTable("c1", T1, "h", "r"), Put(T1, It(P1, <<49>>, 1)), Put(T1, It(P1, <<114>>, 2)), Put(T1, It(P1, <<122>>, 3)), Put(T1, It(P2, <<49>>, 4)), Put(T1, It(P2, <<115>>, 5)),
             Q(P1, TRUE), Q(P1, FALSE), Q(P2, TRUE), Q(P2, FALSE), QR(P1, ">=", <<114>>), QR(P1, "<", <<122>>), QR(P2, ">", <<49>>),
             WalkOp(Q(P1, TRUE), 1, FALSE), WalkOp(Q(P1, FALSE), 2, FALSE), WalkOp(Q(P2, TRUE), 1, FALSE), ScanOp("c1", T1, NoIndex, NoFilter, <<>>, <<>>) >>
ASSUME PrintT(ToJson([kind |-> "trace", ops |-> Trace1]))
SetupDef == <<>>
MenuDef == <<>>
BoundDef(d) == TRUE
=============================================================================
