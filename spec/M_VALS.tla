--------------------------- MODULE M_VALS ---------------------------
(* C10: the value universe up to Depth with every boundary member (empty string / binary / list / map, false,
   NULL, single-element sets, nested empties, numerals in several notations incl. -0, trailing zeros, exponent
   forms, 38 digits, the exponent limits); each value is written with PutItem as attribute `val` (and nested one
   level deeper inside a list and a map) and read back with GetItem, Scan, Query and BatchGetItem.          *)
EXTENDS ModelLib
CONSTANT Depth

T1 == "tbl1"
Nm(neg, d, e, sp) == [t |-> "N", n |-> [neg |-> neg, d |-> d, e |-> e, sp |-> sp]]
Digits38 == [i \in 1..38 |-> IF i % 10 = 0 THEN 9 ELSE i % 10]
Numerals == {
  Nm(FALSE, <<0>>, 0, <<48>>), Nm(TRUE, <<0>>, 0, <<45,48>>), Nm(FALSE, <<1,1,0>>, -2, <<49,46,49,48>>),
  Nm(FALSE, <<1>>, 2, <<49,101,50>>), Nm(FALSE, <<1>>, 2, <<49,69,43,50>>), Nm(FALSE, <<0,0,7>>, 0, <<48,48,55>>),
  Nm(TRUE, <<1,2,5>>, -1, <<45,49,50,46,53>>), Nm(FALSE, <<5>>, -1, <<46,53>>),
  Nm(FALSE, <<9,0,0,7,1,9,9,2,5,4,7,4,0,9,9,3>>, 0, <<57,48,48,55,49,57,57,50,53,52,55,52,48,57,57,51>>),
  Nm(FALSE, Digits38, 0, [i \in 1..38 |-> 48 + Digits38[i]]),
  Nm(FALSE, <<1>>, -130, <<49,69,45,49,51,48>>), Nm(FALSE, <<9,9>>, 124, <<57,46,57,69,43,49,50,53>>),
  \* a mantissa with a decimal point in front of an exponent that ends in zero; a leading plus sign
  Nm(FALSE, <<1,5>>, 9, <<49,46,53,101,49,48>>), Nm(FALSE, <<2,5,0>>, 18, <<50,46,53,48,69,43,50,48>>), Nm(FALSE, <<1,0>>, -1, <<49,46,48,101,48>>),
  Nm(FALSE, <<7>>, 0, <<43,55>>) }
Scalars == { Str(<<>>), Str(<<97>>), Str(<<97, 46, 98, 32, 34, 195, 169>>), Bin(<<>>), Bin(<<0, 255, 10>>), Bool(TRUE), Bool(FALSE), NullV } \cup Numerals
Sets == { Mk("SS", <<<<97>>>>), Mk("SS", <<<<98>>, <<>>, <<97>>>>), Mk("NS", <<Num(1).n>>), Mk("NS", <<Num(2).n, [neg |-> TRUE, d |-> <<1,5>>, e |-> -1], Num(10).n>>),
          Mk("BS", <<<<1>>>>), Mk("BS", <<<<2>>, <<>>, <<1, 0>>>>),
          \* members that differ only beyond what a float64 can tell apart
          Mk("NS", <<[neg |-> FALSE, d |-> <<9,0,0,7,1,9,9,2,5,4,7,4,0,9,9,2>>, e |-> 0], [neg |-> FALSE, d |-> <<9,0,0,7,1,9,9,2,5,4,7,4,0,9,9,3>>, e |-> 0]>>),
          Mk("NS", <<[neg |-> FALSE, d |-> <<1>>, e |-> -1], [neg |-> FALSE, d |-> <<1,0,0,0,0,0,0,0,0,0,0,0,0,0,0,0,0,0,0,1>>, e |-> -20]>>) }
D0 == Scalars \cup Sets
Wrap(S) == { Mk("L", <<>>), Mk("M", <<>>) } \cup { Mk("L", <<v>>) : v \in S } \cup { Mk("M", [k |-> v]) : v \in S }
           \cup { Mk("L", <<Str(<<97>>), Num(1), Bool(FALSE), NullV>>), Mk("M", [a |-> Str(<<>>), b |-> NullV, c |-> Mk("L", <<>>), d |-> Mk("M", <<>>)]) }
D1 == D0 \cup Wrap(D0)
D2 == D1 \cup Wrap(Wrap({ Str(<<97>>), Num(1), Mk("L", <<>>), Mk("M", <<>>), Mk("SS", <<<<97>>>>) }))
Universe == IF Depth = 0 THEN D0 ELSE IF Depth = 1 THEN D1 ELSE D2

Key == [h |-> S1(107)]
HK == Cmp("=", Path("h"), Val(":h"))
Trace(v) == << AddTable("c1", T1, "h", ""), Put(T1, Key @@ [val |-> v]), Get(T1, Key),
               ScanOp("c1", T1, NoIndex, NoFilter, <<>>, <<>>),
               QueryOp("c1", T1, NoIndex, HK, NoFilter, <<>>, One(":h", S1(107)), TRUE),
               [op |-> "BatchGet", c |-> "c1", reqs |-> <<[t |-> T1, keys |-> <<Key>>]>>],
               \* overwritten by an item with as many attributes under another name: nothing of the old value may survive
               Put(T1, Key @@ [other |-> v]), Get(T1, Key), Put(T1, Key @@ [val |-> Str(<<122>>)]), Get(T1, Key),
               \* and through paged reads: every item of every page is whole
               Put(T1, [h |-> S1(108)] @@ [val |-> v, w |-> Num(1)]), Put(T1, [h |-> S1(109)] @@ [val |-> v]),
               WalkOp(ScanOp("c1", T1, NoIndex, NoFilter, <<>>, <<>>), 1, FALSE), WalkOp(ScanOp("c1", T1, NoIndex, NoFilter, <<>>, <<>>), 2, FALSE) >>
ASSUME \A v \in Universe : PrintT(ToJson([kind |-> "trace", ops |-> Trace(v)]))
ASSUME PrintT(ToJson([kind |-> "count", n |-> Cardinality(Universe)]))
SetupDef == <<>>
MenuDef == <<>>
BoundDef(d) == TRUE
=============================================================================
