--------------------------- MODULE Decimal ---------------------------
(* Exact decimal numbers on digit sequences.  A numeral, exactly as lexed from its text, is
   [neg |-> BOOLEAN, d |-> Seq(0..9) (most significant first), e |-> Int] and denotes
   (-1)^neg * d * 10^e.  TLC integers are 32 bit, DynamoDB numbers have 38 significant digits, so all
   arithmetic is schoolbook arithmetic on the digit sequences.  The Go harness only splits characters;
   every bit of meaning (normal form, equality, order, sum, difference, validity) is defined here.      *)
EXTENDS Integers, Sequences

RECURSIVE StripLead(_), StripTrail(_)
StripLead(d) == IF d # <<>> /\ d[1] = 0 THEN StripLead(Tail(d)) ELSE d
StripTrail(n) == IF n.d # <<>> /\ n.d[Len(n.d)] = 0
                 THEN StripTrail([neg |-> n.neg, d |-> SubSeq(n.d, 1, Len(n.d)-1), e |-> n.e + 1])
                 ELSE n
DZero == [neg |-> FALSE, d |-> <<>>, e |-> 0]
DNorm(n) == LET a == StripTrail([neg |-> n.neg, d |-> StripLead(n.d), e |-> n.e])
            IN IF a.d = <<>> THEN DZero ELSE a
Zeros(k) == [i \in 1..k |-> 0]

RECURSIVE CmpDigits(_,_)
CmpDigits(a, b) == IF a = <<>> THEN 0
                   ELSE IF a[1] < b[1] THEN -1
                   ELSE IF a[1] > b[1] THEN 1
                   ELSE CmpDigits(Tail(a), Tail(b))
\* magnitudes of two normalised numbers: -1, 0, 1
CmpMag(a, b) ==
  IF a.d = <<>> THEN (IF b.d = <<>> THEN 0 ELSE -1)
  ELSE IF b.d = <<>> THEN 1
  ELSE LET ea == Len(a.d) + a.e
           eb == Len(b.d) + b.e
       IN IF ea < eb THEN -1 ELSE IF ea > eb THEN 1
          ELSE LET m == IF Len(a.d) > Len(b.d) THEN Len(a.d) ELSE Len(b.d)
               IN CmpDigits(a.d \o Zeros(m - Len(a.d)), b.d \o Zeros(m - Len(b.d)))
DCmp(x, y) == LET a == DNorm(x)
                  b == DNorm(y)
              IN IF a.neg /\ ~b.neg THEN -1
                 ELSE IF ~a.neg /\ b.neg THEN 1
                 ELSE IF a.neg THEN -CmpMag(a, b) ELSE CmpMag(a, b)
DEq(x, y)   == DCmp(x, y) = 0
DLess(x, y) == DCmp(x, y) < 0
DLeq(x, y)  == DCmp(x, y) <= 0

RECURSIVE AddD(_,_,_), SubD(_,_,_)
AddD(a, b, c) == IF a = <<>> THEN (IF c = 0 THEN <<>> ELSE <<c>>)
                 ELSE LET n == Len(a)
                          s == a[n] + b[n] + c
                      IN Append(AddD(SubSeq(a,1,n-1), SubSeq(b,1,n-1), s \div 10), s % 10)
SubD(a, b, br) == IF a = <<>> THEN <<>>      \* requires a >= b
                  ELSE LET n == Len(a)
                           s == a[n] - b[n] - br
                       IN Append(SubD(SubSeq(a,1,n-1), SubSeq(b,1,n-1), IF s < 0 THEN 1 ELSE 0),
                                 IF s < 0 THEN s + 10 ELSE s)
Align(a, b) == LET e  == IF a.e < b.e THEN a.e ELSE b.e
                   da == a.d \o Zeros(a.e - e)
                   db == b.d \o Zeros(b.e - e)
                   m  == IF Len(da) > Len(db) THEN Len(da) ELSE Len(db)
               IN [e |-> e, a |-> Zeros(m - Len(da)) \o da, b |-> Zeros(m - Len(db)) \o db]
DAdd(x, y) == LET a  == DNorm(x)
                  b  == DNorm(y)
                  al == Align(a, b)
              IN IF a.neg = b.neg THEN DNorm([neg |-> a.neg, d |-> AddD(al.a, al.b, 0), e |-> al.e])
                 ELSE LET c == CmpMag(a, b)
                      IN IF c = 0 THEN DZero
                         ELSE IF c > 0 THEN DNorm([neg |-> a.neg, d |-> SubD(al.a, al.b, 0), e |-> al.e])
                         ELSE DNorm([neg |-> b.neg, d |-> SubD(al.b, al.a, 0), e |-> al.e])
DNeg(x)    == [neg |-> ~x.neg, d |-> x.d, e |-> x.e]
DSub(x, y) == DAdd(x, DNeg(y))

\* DynamoDB: at most 38 significant digits, magnitude 0 or within 1E-130 .. 9.99..E+125
DValid(x) == LET a == DNorm(x)
             IN a.d = <<>> \/ (Len(a.d) <= 38 /\ Len(a.d) + a.e - 1 >= -130 /\ Len(a.d) + a.e - 1 <= 125)

\* small naturals <-> decimals (size(), counts)
RECURSIVE NatDigits(_)
NatDigits(n) == IF n < 10 THEN <<n>> ELSE Append(NatDigits(n \div 10), n % 10)
DOfNat(n) == [neg |-> FALSE, d |-> NatDigits(n), e |-> 0]
=============================================================================
