--------------------------- MODULE ModelLib ---------------------------
(* Constructors shared by the bounded models (operation records exactly as MiniDyn!Plan reads them). *)
EXTENDS GenCore

NoCond == [some |-> FALSE, ast |-> [k |-> "none"]]
Cond(ast) == [some |-> TRUE, ast |-> ast]
P(n) == <<[s |-> "n", n |-> n, i |-> 0]>>
PA(n) == <<[s |-> "a", n |-> n, i |-> 0]>>
Path(n) == [k |-> "path", p |-> P(n)]
PathA(n) == [k |-> "path", p |-> PA(n)]
Val(n) == [k |-> "val", n |-> n]
Cmp(op, l, r) == [k |-> "cmp", op |-> op, l |-> l, r |-> r]
Fn(f, args) == [k |-> "fn", f |-> f, args |-> args]
And(l, r) == [k |-> "and", l |-> l, r |-> r]
Or(l, r) == [k |-> "or", l |-> l, r |-> r]
Not(x) == [k |-> "not", x |-> x]
Between(x, lo, hi) == [k |-> "between", x |-> x, lo |-> lo, hi |-> hi]
NoUpd == [set |-> <<>>, remove |-> <<>>, add |-> <<>>, del |-> <<>>]
SetU(n, rhs) == [NoUpd EXCEPT !.set = <<[p |-> P(n), v |-> rhs]>>]
RemU(n) == [NoUpd EXCEPT !.remove = <<P(n)>>]
AddU(n, rhs) == [NoUpd EXCEPT !.add = <<[p |-> P(n), v |-> rhs]>>]
One(n, v) == [x \in {n} |-> v]
S1(b) == Str(<<b>>)

PutC(c, t, it, cond, names, values, rvf) ==
  [op |-> "PutItem", c |-> c, t |-> t, item |-> it, cond |-> cond, names |-> names, values |-> values, rvf |-> rvf]
Put(t, it) == PutC("c1", t, it, NoCond, <<>>, <<>>, FALSE)
Get(t, k) == [op |-> "GetItem", c |-> "c1", t |-> t, key |-> k]
GetP(t, k, proj) == [op |-> "GetItem", c |-> "c1", t |-> t, key |-> k, proj |-> proj]
DelC(c, t, k, cond, names, values, old, rvf) ==
  [op |-> "DeleteItem", c |-> c, t |-> t, key |-> k, cond |-> cond, names |-> names, values |-> values, retold |-> old, rvf |-> rvf]
Del(t, k, old) == DelC("c1", t, k, NoCond, <<>>, <<>>, old, FALSE)
UpdC(c, t, k, u, cond, names, values, rvf) ==
  [op |-> "UpdateItem", c |-> c, t |-> t, key |-> k, upd |-> u, cond |-> cond, names |-> names, values |-> values, rvf |-> rvf]
Upd(t, k, u, values) == UpdC("c1", t, k, u, NoCond, <<>>, values, FALSE)
AddTable(c, t, h, r) == [op |-> "AddTable", c |-> c, t |-> t, hash |-> h, range |-> r]
AddIndex(c, t, ix, h, r) == [op |-> "AddIndex", c |-> c, t |-> t, index |-> ix, hash |-> h, range |-> r]
DeleteIndex(c, t, ix) == [op |-> "DeleteIndex", c |-> c, t |-> t, index |-> ix]
Clear(c, t) == [op |-> "ClearTable", c |-> c, t |-> t]
Describe(c, t) == [op |-> "DescribeTable", c |-> c, t |-> t]
DeleteTable(c, t) == [op |-> "DeleteTable", c |-> c, t |-> t]
Fail(c, mode) == [op |-> "Fail", c |-> c, mode |-> mode]
NoIndex == [some |-> FALSE, n |-> ""]
Index(n) == [some |-> TRUE, n |-> n]
NoLimit == [some |-> FALSE, n |-> 0]
NoEsk == [some |-> FALSE, k |-> <<>>]
NoFilter == [some |-> FALSE, ast |-> [k |-> "none"]]
ScanOp(c, t, index, filter, names, values) ==
  [op |-> "Scan", c |-> c, t |-> t, kind |-> "scan", index |-> index, filter |-> filter, names |-> names, values |-> values,
   limit |-> NoLimit, esk |-> NoEsk]
QueryOp(c, t, index, kc, filter, names, values, fwd) ==
  [op |-> "Query", c |-> c, t |-> t, kind |-> "query", index |-> index, kc |-> kc, filter |-> filter, names |-> names,
   values |-> values, fwd |-> fwd, limit |-> NoLimit, esk |-> NoEsk]
WalkOp(base, limit, del) == [base EXCEPT !.op = "Walk", !.limit = [some |-> TRUE, n |-> limit]] @@ [del |-> del]
=============================================================================
