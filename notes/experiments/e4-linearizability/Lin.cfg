INIT Init
NEXT Next
INVARIANT NotAllDone
CHECK_DEADLOCK FALSE
