import json, random, sys
random.seed(int(sys.argv[1])); P=int(sys.argv[2]); K=int(sys.argv[3]); bad=len(sys.argv)>4
# simulate: each thread has ops; global clock; each op: inv time, linearization point, ret time
t=0; val={"k1":0,"k2":0}; ops=[]
pending={}  # thread -> op (invoked, maybe linearized)
remaining={p:K for p in range(P)}
while any(remaining.values()) or pending:
    choices=[]
    for p in range(P):
        if p in pending: choices.append(("step",p))
        elif remaining[p]>0: choices.append(("inv",p))
    c,p=random.choice(choices)
    t+=1
    if c=="inv":
        k=random.choice(["k1","k2"]); kind=random.choice(["add","add","get"])
        pending[p]={"id":len(ops)+len(pending)+1000*p,"th":p,"op":kind,"k":k,"inv":t,"lin":False}
        remaining[p]-=1
    else:
        o=pending[p]
        if not o["lin"]:
            if o["op"]=="add": val[o["k"]]+=1
            o["res"]=val[o["k"]]; o["lin"]=True
        else:
            o["ret"]=t; del o["lin"]; ops.append(o); del pending[p]
if bad:
    # make one get stale
    for o in ops:
        if o["op"]=="get" and o["res"]>2: o["res"]-=2; break
for i,o in enumerate(ops): o["id"]=i+1
json.dump(ops, open("hist.json","w"))
print(len(ops))
