---- MODULE Lin ----
EXTENDS Integers, Sequences, TLC, Json, FiniteSets
H == JsonDeserialize("hist.json")
Ids == 1..Len(H)
VARIABLES done, val
Init == done = {} /\ val = [k \in {"k1","k2"} |-> 0]
MayGo(o) == \A p \in Ids : H[p].ret < H[o].inv => p \in done
Step(o) == /\ o \notin done /\ MayGo(o)
           /\ IF H[o].op = "add" THEN val' = [val EXCEPT ![H[o].k] = @ + 1] /\ H[o].res = val'[H[o].k]
              ELSE UNCHANGED val /\ H[o].res = val[H[o].k]
           /\ done' = done \cup {o}
Next == \E o \in Ids : Step(o)
NotAllDone == done # Ids
====
