# writes vec.ndjson: numeral pairs with comparison, sum and difference computed by Python's decimal
import json, random
from decimal import Decimal, getcontext
getcontext().prec=200
random.seed(3)
def lex(s):
    neg=s.startswith('-'); s=s.lstrip('+-')
    m,_,e=s.lower().partition('e'); e=int(e) if e else 0
    ip,_,fp=m.partition('.')
    return {"neg":neg,"d":[int(c) for c in ip+fp],"e":e-len(fp)}
def rnd():
    k=random.choice([1,2,5,17,38]); ds=''.join(random.choice('0123456789') for _ in range(k))
    if random.random()<0.5:
        p=random.randint(0,len(ds)); ds=ds[:p]+'.'+ds[p:]
        if ds.startswith('.'): ds='0'+ds
        if ds.endswith('.'): ds=ds+'0'
    if random.random()<0.3: ds+='e%d'%random.randint(-20,20)
    if random.random()<0.3: ds='-'+ds
    return ds
special=["0","-0","0.0","1","1.0","01","1e0","10","9","0.1","0.2","0.3","9007199254740993","9007199254740992","100","1e2","1.10","1.1"]
out=open("vec.ndjson","w")
pairs=[(a,b) for a in special for b in special]+[(rnd(),rnd()) for _ in range(4000)]
for a,b in pairs:
    A,B=Decimal(a),Decimal(b)
    c=(A>B)-(A<B)
    out.write(json.dumps({"a":lex(a),"b":lex(b),"cmp":c,"sum":lex(format(A+B,'f')),"diff":lex(format(A-B,'f'))})+"\n")
