---- MODULE Dec ----
EXTENDS Integers, Sequences, TLC, Json
\* a numeral as lexed: [neg |-> BOOLEAN, d |-> Seq(0..9) (most significant first), e |-> Int]; value = (-1)^neg * d * 10^e
RECURSIVE StripLead(_), StripTrail(_)
StripLead(d) == IF d # <<>> /\ d[1] = 0 THEN StripLead(Tail(d)) ELSE d
StripTrail(n) == IF n.d # <<>> /\ n.d[Len(n.d)] = 0 THEN StripTrail([n EXCEPT !.d = SubSeq(n.d, 1, Len(n.d)-1), !.e = n.e + 1]) ELSE n
Zero == [neg |-> FALSE, d |-> <<>>, e |-> 0]
Norm(n) == LET a == StripTrail([n EXCEPT !.d = StripLead(n.d)]) IN IF a.d = <<>> THEN Zero ELSE a
Zeros(k) == [i \in 1..k |-> 0]
\* magnitude comparison of normalised non-zero numbers: -1, 0, 1
RECURSIVE CmpDigits(_,_)
CmpDigits(a, b) == IF a = <<>> THEN 0 ELSE IF a[1] < b[1] THEN -1 ELSE IF a[1] > b[1] THEN 1 ELSE CmpDigits(Tail(a), Tail(b))
CmpMag(a, b) ==
  IF a.d = <<>> THEN (IF b.d = <<>> THEN 0 ELSE -1) ELSE IF b.d = <<>> THEN 1 ELSE
  LET ea == Len(a.d) + a.e  eb == Len(b.d) + b.e IN
  IF ea < eb THEN -1 ELSE IF ea > eb THEN 1 ELSE
  LET m == IF Len(a.d) > Len(b.d) THEN Len(a.d) ELSE Len(b.d) IN
    CmpDigits(a.d \o Zeros(m - Len(a.d)), b.d \o Zeros(m - Len(b.d)))
Cmp(x, y) == LET a == Norm(x) b == Norm(y) IN
  IF a.neg /\ ~b.neg THEN -1 ELSE IF ~a.neg /\ b.neg THEN 1
  ELSE IF a.neg THEN -CmpMag(a, b) ELSE CmpMag(a, b)
Eq(x, y) == Cmp(x, y) = 0
Less(x, y) == Cmp(x, y) < 0
\* aligned digit arithmetic (equal lengths), least significant handled by recursion on the last element
RECURSIVE AddD(_,_,_), SubD(_,_,_)
AddD(a, b, c) == IF a = <<>> THEN (IF c = 0 THEN <<>> ELSE <<c>>)
                 ELSE LET n == Len(a) s == a[n] + b[n] + c IN Append(AddD(SubSeq(a,1,n-1), SubSeq(b,1,n-1), s \div 10), s % 10)
SubD(a, b, br) == IF a = <<>> THEN <<>>      \* requires a >= b
                 ELSE LET n == Len(a) s == a[n] - b[n] - br IN
                      Append(SubD(SubSeq(a,1,n-1), SubSeq(b,1,n-1), IF s < 0 THEN 1 ELSE 0), IF s < 0 THEN s + 10 ELSE s)
Align(a, b) == LET e == IF a.e < b.e THEN a.e ELSE b.e
                   da == a.d \o Zeros(a.e - e)  db == b.d \o Zeros(b.e - e)
                   m == IF Len(da) > Len(db) THEN Len(da) ELSE Len(db)
               IN [e |-> e, a |-> Zeros(m - Len(da)) \o da, b |-> Zeros(m - Len(db)) \o db]
Add(x, y) == LET a == Norm(x) b == Norm(y) al == Align(a, b) IN
  IF a.neg = b.neg THEN Norm([neg |-> a.neg, d |-> AddD(al.a, al.b, 0), e |-> al.e])
  ELSE LET c == CmpMag(a, b) IN
       IF c = 0 THEN Zero
       ELSE IF c > 0 THEN Norm([neg |-> a.neg, d |-> SubD(al.a, al.b, 0), e |-> al.e])
       ELSE Norm([neg |-> b.neg, d |-> SubD(al.b, al.a, 0), e |-> al.e])
Neg(x) == [x EXCEPT !.neg = ~x.neg]
Sub(x, y) == Add(x, Neg(y))
\* experiment
T == ndJsonDeserialize("vec.ndjson")
VARIABLE i
Init == i = 1
Next == /\ i <= Len(T)
        /\ LET t == T[i] IN /\ Cmp(t.a, t.b) = t.cmp
                            /\ Eq(Add(t.a, t.b), t.sum)
                            /\ Norm(Add(t.a, t.b)) = Norm(t.sum)
                            /\ Eq(Sub(t.a, t.b), t.diff)
        /\ i' = i + 1 /\ TLCSet(1, i')
Accepted == IF TLCGet(1) = Len(T) + 1 THEN TRUE ELSE Print(<<"REJECTED", TLCGet(1), T[TLCGet(1)]>>, FALSE)
====
