package probe

import (
	"errors"
	"fmt"
	"testing"

	"github.com/aws/aws-sdk-go-v2/aws"
	"github.com/aws/aws-sdk-go-v2/service/dynamodb"
	"github.com/aws/aws-sdk-go-v2/service/dynamodb/types"
	"github.com/aws/smithy-go"
	v2 "github.com/truora/minidyn/aws-v2/client"
)

func errClass(err error) string {
	if err == nil {
		return "ok"
	}
	var ae smithy.APIError
	if errors.As(err, &ae) {
		return ae.ErrorCode()
	}
	return "other:" + err.Error()
}

func upd(c *v2.Client, key map[string]types.AttributeValue, expr string, vals map[string]types.AttributeValue, names map[string]string) (map[string]types.AttributeValue, error) {
	out, err := c.UpdateItem(ctx, &dynamodb.UpdateItemInput{TableName: aws.String("tbl"), Key: key, UpdateExpression: aws.String(expr), ExpressionAttributeValues: vals, ExpressionAttributeNames: names})
	if err != nil {
		return nil, err
	}
	return out.Attributes, nil
}

func dump(it map[string]types.AttributeValue) string {
	s := "{"
	keys := []string{}
	for k := range it {
		keys = append(keys, k)
	}
	// sort
	for i := range keys {
		for j := i + 1; j < len(keys); j++ {
			if keys[j] < keys[i] {
				keys[i], keys[j] = keys[j], keys[i]
			}
		}
	}
	for _, k := range keys {
		s += k + ":" + dumpV(it[k]) + " "
	}
	return s + "}"
}
func dumpV(v types.AttributeValue) string {
	switch x := v.(type) {
	case *types.AttributeValueMemberS:
		return fmt.Sprintf("S(%q)", x.Value)
	case *types.AttributeValueMemberN:
		return "N(" + x.Value + ")"
	case *types.AttributeValueMemberB:
		return fmt.Sprintf("B(%v)", x.Value)
	case *types.AttributeValueMemberBOOL:
		return fmt.Sprintf("BOOL(%v)", x.Value)
	case *types.AttributeValueMemberNULL:
		return "NULL"
	case *types.AttributeValueMemberL:
		s := "L["
		for _, e := range x.Value {
			s += dumpV(e) + ","
		}
		return s + "]"
	case *types.AttributeValueMemberM:
		return "M" + dump(x.Value)
	case *types.AttributeValueMemberSS:
		return fmt.Sprintf("SS%v", x.Value)
	case *types.AttributeValueMemberNS:
		return fmt.Sprintf("NS%v", x.Value)
	case *types.AttributeValueMemberBS:
		return fmt.Sprintf("BS%v", x.Value)
	}
	return fmt.Sprintf("%T", v)
}

func get(c *v2.Client, key map[string]types.AttributeValue) string {
	out, err := c.GetItem(ctx, &dynamodb.GetItemInput{TableName: aws.String("tbl"), Key: key})
	if err != nil {
		return "ERR " + errClass(err)
	}
	return dump(out.Item)
}

func TestUpdateDefects(t *testing.T) {
	k1 := map[string]types.AttributeValue{"h": S("k1")}
	try("swap", func() {
		c := newC(t, "")
		put(c, map[string]types.AttributeValue{"h": S("k1"), "a": S("A"), "b": S("B")})
		_, err := upd(c, k1, "SET a = b, b = a", nil, nil)
		fmt.Println("[swap]", err, get(c, k1))
	})
	try("delete-undefined", func() {
		c := newC(t, "")
		put(c, map[string]types.AttributeValue{"h": S("k1")})
		_, err := upd(c, k1, "DELETE s :s", map[string]types.AttributeValue{":s": &types.AttributeValueMemberSS{Value: []string{"x"}}}, nil)
		fmt.Println("[delete-undefined]", err, get(c, k1))
	})
	try("untouched-number", func() {
		c := newC(t, "")
		put(c, map[string]types.AttributeValue{"h": S("k1"), "big": N("9007199254740993"), "dec": N("1.10"), "e": N("1e2")})
		_, err := upd(c, k1, "SET a = :a", map[string]types.AttributeValue{":a": S("x")}, nil)
		fmt.Println("[untouched-number]", err, get(c, k1))
	})
	try("empty-binary-update", func() {
		c := newC(t, "")
		put(c, map[string]types.AttributeValue{"h": S("k1"), "b": &types.AttributeValueMemberB{Value: []byte{}}})
		fmt.Println("[empty-binary-get]", get(c, k1))
		_, err := upd(c, k1, "SET a = :a", map[string]types.AttributeValue{":a": S("x")}, nil)
		fmt.Println("[empty-binary-update]", err, get(c, k1))
	})
	try("empty-list-map", func() {
		c := newC(t, "")
		put(c, map[string]types.AttributeValue{"h": S("k1"), "l": &types.AttributeValueMemberL{Value: []types.AttributeValue{}}, "m": &types.AttributeValueMemberM{Value: map[string]types.AttributeValue{}}, "s": S(""), "f": &types.AttributeValueMemberBOOL{Value: false}})
		fmt.Println("[empty-list-map]", get(c, k1))
	})
	try("update-key-attr", func() {
		c := newC(t, "")
		put(c, map[string]types.AttributeValue{"h": S("k1")})
		_, err := upd(c, k1, "SET h = :a", map[string]types.AttributeValue{":a": S("zz")}, nil)
		fmt.Println("[update-key-attr]", errClass(err), get(c, k1), "scan:", scanIdx(c, ""))
	})
	try("add-number", func() {
		c := newC(t, "")
		put(c, map[string]types.AttributeValue{"h": S("k1"), "n": N("0.1")})
		_, err := upd(c, k1, "ADD n :d", map[string]types.AttributeValue{":d": N("0.2")}, nil)
		fmt.Println("[add-number]", err, get(c, k1))
	})
	try("set-twice-clause", func() {
		c := newC(t, "")
		put(c, map[string]types.AttributeValue{"h": S("k1")})
		_, err := upd(c, k1, "SET a = :a SET b = :a", map[string]types.AttributeValue{":a": S("x")}, nil)
		fmt.Println("[set-twice-clause]", errClass(err), get(c, k1))
	})
	try("remove-nested-map", func() {
		c := newC(t, "")
		put(c, map[string]types.AttributeValue{"h": S("k1"), "m": &types.AttributeValueMemberM{Value: map[string]types.AttributeValue{"x": S("1"), "y": S("2")}}})
		_, err := upd(c, k1, "REMOVE m.x", nil, nil)
		fmt.Println("[remove-nested-map]", errClass(err), get(c, k1))
	})
	try("ifnotexists-null", func() {
		c := newC(t, "")
		put(c, map[string]types.AttributeValue{"h": S("k1"), "n": &types.AttributeValueMemberNULL{Value: true}})
		_, err := upd(c, k1, "SET n = if_not_exists(n, :v)", map[string]types.AttributeValue{":v": S("x")}, nil)
		fmt.Println("[ifnotexists-null]", errClass(err), get(c, k1))
	})
	try("index-type-mismatch-partial-write", func() {
		c := newC(t, "")
		v2.AddIndex(ctx, c, "tbl", "gidx", "g", "")
		err := put(c, map[string]types.AttributeValue{"h": S("k1"), "g": N("1")})
		fmt.Println("[index-type-mismatch-partial-write]", errClass(err), get(c, k1), "scan:", scanIdx(c, ""))
	})
	try("alias-self", func() {
		c := newC(t, "")
		put(c, map[string]types.AttributeValue{"h": S("k1")})
		// skip actual self alias: would overflow the stack (fatal)
		_, err := upd(c, k1, "SET #a = :a", map[string]types.AttributeValue{":a": S("x")}, map[string]string{"#a": "a"})
		fmt.Println("[alias]", errClass(err), get(c, k1))
	})
}

func TestPagingBatchDefects(t *testing.T) {
	try("page-deleted-boundary", func() {
		c := newC(t, "")
		for _, k := range []string{"a", "b", "c", "d"} {
			put(c, map[string]types.AttributeValue{"h": S(k)})
		}
		out, _ := c.Scan(ctx, &dynamodb.ScanInput{TableName: aws.String("tbl"), Limit: aws.Int32(2)})
		fmt.Println("[page1]", len(out.Items), dump(out.LastEvaluatedKey))
		c.DeleteItem(ctx, &dynamodb.DeleteItemInput{TableName: aws.String("tbl"), Key: out.LastEvaluatedKey})
		out2, _ := c.Scan(ctx, &dynamodb.ScanInput{TableName: aws.String("tbl"), Limit: aws.Int32(2), ExclusiveStartKey: out.LastEvaluatedKey})
		fmt.Println("[page-deleted-boundary] page2 items", len(out2.Items), dump(out2.LastEvaluatedKey))
	})
	try("batchget-missing", func() {
		c := newC(t, "")
		put(c, map[string]types.AttributeValue{"h": S("a")})
		out, err := c.BatchGetItem(ctx, &dynamodb.BatchGetItemInput{RequestItems: map[string]types.KeysAndAttributes{"tbl": {Keys: []map[string]types.AttributeValue{{"h": S("a")}, {"h": S("zz")}}}}})
		fmt.Println("[batchget-missing]", err, len(out.Responses["tbl"]), "unprocessed:", len(out.UnprocessedKeys["tbl"].Keys))
	})
	try("batchwrite-failure", func() {
		c := newC(t, "")
		v2.EmulateFailure(c, v2.FailureConditionInternalServerError)
		out, err := c.BatchWriteItem(ctx, &dynamodb.BatchWriteItemInput{RequestItems: map[string][]types.WriteRequest{"tbl": {{PutRequest: &types.PutRequest{Item: map[string]types.AttributeValue{"h": S("a")}}}}}})
		fmt.Println("[batchwrite-failure]", errClass(err), out)
	})
	try("key-collision", func() {
		c := newC(t, "r")
		put(c, map[string]types.AttributeValue{"h": S("a.b"), "r": S("c"), "v": S("first")})
		put(c, map[string]types.AttributeValue{"h": S("a"), "r": S("b.c"), "v": S("second")})
		fmt.Println("[key-collision]", scanIdx(c, ""))
	})
	try("missing-key", func() {
		c := newC(t, "r")
		err := put(c, map[string]types.AttributeValue{"h": S("a")})
		fmt.Println("[missing-range-key put]", errClass(err))
		err = put(c, map[string]types.AttributeValue{"h": N("1"), "r": S("x")})
		fmt.Println("[wrong-type-key put]", errClass(err))
		_, err = c.GetItem(ctx, &dynamodb.GetItemInput{TableName: aws.String("tbl"), Key: map[string]types.AttributeValue{"h": S("a")}})
		fmt.Println("[missing-range-key get]", errClass(err))
		_, err = c.GetItem(ctx, &dynamodb.GetItemInput{TableName: aws.String("tbl"), Key: map[string]types.AttributeValue{"h": S("a"), "r": S("x"), "extra": S("y")}})
		fmt.Println("[extra-key-attr get]", errClass(err))
		_, err = c.GetItem(ctx, &dynamodb.GetItemInput{TableName: aws.String("nope"), Key: map[string]types.AttributeValue{"h": S("a")}})
		fmt.Println("[unknown-table get]", errClass(err))
	})
	try("unused-prefix", func() {
		c := newC(t, "")
		put(c, map[string]types.AttributeValue{"h": S("a"), "v": S("x")})
		_, err := c.PutItem(ctx, &dynamodb.PutItemInput{TableName: aws.String("tbl"), Item: map[string]types.AttributeValue{"h": S("a")},
			ConditionExpression: aws.String("v = :ab"), ExpressionAttributeValues: map[string]types.AttributeValue{":ab": S("x"), ":a": S("unused")}})
		fmt.Println("[unused-prefix]", errClass(err))
	})
	try("query-shape", func() {
		c := newC(t, "r")
		put(c, map[string]types.AttributeValue{"h": S("a"), "r": S("1")})
		put(c, map[string]types.AttributeValue{"h": S("b"), "r": S("2")})
		out, err := c.Query(ctx, &dynamodb.QueryInput{TableName: aws.String("tbl"), KeyConditionExpression: aws.String("r > :z"), ExpressionAttributeValues: map[string]types.AttributeValue{":z": S("0")}})
		if err == nil {
			fmt.Println("[query-no-hash-eq] accepted, items:", len(out.Items))
		} else {
			fmt.Println("[query-no-hash-eq]", errClass(err))
		}
	})
	try("numeric-sort", func() {
		c := v2.NewClient()
		c.CreateTable(ctx, &dynamodb.CreateTableInput{TableName: aws.String("tbl"), BillingMode: types.BillingModePayPerRequest,
			AttributeDefinitions: []types.AttributeDefinition{{AttributeName: aws.String("h"), AttributeType: types.ScalarAttributeTypeS}, {AttributeName: aws.String("r"), AttributeType: types.ScalarAttributeTypeN}},
			KeySchema:            []types.KeySchemaElement{{AttributeName: aws.String("h"), KeyType: types.KeyTypeHash}, {AttributeName: aws.String("r"), KeyType: types.KeyTypeRange}}})
		put(c, map[string]types.AttributeValue{"h": S("a"), "r": N("9")})
		put(c, map[string]types.AttributeValue{"h": S("a"), "r": N("10")})
		put(c, map[string]types.AttributeValue{"h": S("a"), "r": N("10.0")})
		out, _ := c.Query(ctx, &dynamodb.QueryInput{TableName: aws.String("tbl"), KeyConditionExpression: aws.String("h = :h"), ExpressionAttributeValues: map[string]types.AttributeValue{":h": S("a")}})
		s := ""
		for _, it := range out.Items {
			s += dump(it) + " "
		}
		fmt.Println("[numeric-sort]", s)
	})
}
