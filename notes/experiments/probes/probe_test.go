package probe

import (
	"context"
	"fmt"
	"testing"

	"github.com/aws/aws-sdk-go-v2/aws"
	"github.com/aws/aws-sdk-go-v2/service/dynamodb"
	"github.com/aws/aws-sdk-go-v2/service/dynamodb/types"
	v2 "github.com/truora/minidyn/aws-v2/client"
	"github.com/truora/minidyn/interpreter"
	mt "github.com/truora/minidyn/types"
)

var ctx = context.Background()

func S(s string) types.AttributeValue { return &types.AttributeValueMemberS{Value: s} }
func N(s string) types.AttributeValue { return &types.AttributeValueMemberN{Value: s} }

func try(name string, f func()) {
	defer func() {
		if r := recover(); r != nil {
			fmt.Printf("[%s] PANIC: %v\n", name, r)
		}
	}()
	f()
}

func newC(t *testing.T, rangeKey string) *v2.Client {
	c := v2.NewClient()
	if err := v2.AddTable(ctx, c, "tbl", "h", rangeKey); err != nil {
		t.Fatal(err)
	}
	return c
}

func put(c *v2.Client, item map[string]types.AttributeValue) error {
	_, err := c.PutItem(ctx, &dynamodb.PutItemInput{TableName: aws.String("tbl"), Item: item})
	return err
}

func scanIdx(c *v2.Client, idx string) string {
	in := &dynamodb.ScanInput{TableName: aws.String("tbl")}
	if idx != "" {
		in.IndexName = aws.String(idx)
	}
	out, err := c.Scan(ctx, in)
	if err != nil {
		return "ERR " + err.Error()
	}
	s := ""
	for _, it := range out.Items {
		s += fmt.Sprintf("%v ", show(it))
	}
	return s
}

func show(it map[string]types.AttributeValue) string {
	s := "{"
	for _, k := range []string{"h", "r", "g", "v", "w"} {
		if v, ok := it[k]; ok {
			switch x := v.(type) {
			case *types.AttributeValueMemberS:
				s += k + "=" + x.Value + " "
			case *types.AttributeValueMemberN:
				s += k + "=N" + x.Value + " "
			default:
				s += fmt.Sprintf("%s=%T ", k, v)
			}
		}
	}
	return s + "}"
}

func TestIndexDefects(t *testing.T) {
	try("idx-overwrite-change-key", func() {
		c := newC(t, "")
		v2.AddIndex(ctx, c, "tbl", "gidx", "g", "")
		put(c, map[string]types.AttributeValue{"h": S("k1"), "g": S("a")})
		put(c, map[string]types.AttributeValue{"h": S("k2"), "g": S("b")})
		put(c, map[string]types.AttributeValue{"h": S("k1"), "g": S("c")})
		fmt.Println("[idx-overwrite-change-key] base:", scanIdx(c, ""), " idx:", scanIdx(c, "gidx"))
	})
	try("idx-overwrite-drop-key", func() {
		c := newC(t, "")
		v2.AddIndex(ctx, c, "tbl", "gidx", "g", "")
		put(c, map[string]types.AttributeValue{"h": S("k1"), "g": S("a")})
		put(c, map[string]types.AttributeValue{"h": S("k1")})
		fmt.Println("[idx-overwrite-drop-key] base:", scanIdx(c, ""), " idx:", scanIdx(c, "gidx"))
	})
	try("idx-update-enter-late", func() {
		c := newC(t, "")
		v2.AddIndex(ctx, c, "tbl", "gidx", "g", "")
		put(c, map[string]types.AttributeValue{"h": S("k1"), "g": S("a")})
		put(c, map[string]types.AttributeValue{"h": S("k2")})
		_, err := c.UpdateItem(ctx, &dynamodb.UpdateItemInput{TableName: aws.String("tbl"), Key: map[string]types.AttributeValue{"h": S("k2")},
			UpdateExpression: aws.String("SET g = :g"), ExpressionAttributeValues: map[string]types.AttributeValue{":g": S("b")}})
		fmt.Println("[idx-update-enter-late] err", err, "base:", scanIdx(c, ""), " idx:", scanIdx(c, "gidx"))
	})
	try("idx-no-backfill", func() {
		c := newC(t, "")
		put(c, map[string]types.AttributeValue{"h": S("k1"), "g": S("a")})
		v2.AddIndex(ctx, c, "tbl", "gidx", "g", "")
		fmt.Println("[idx-no-backfill] base:", scanIdx(c, ""), " idx:", scanIdx(c, "gidx"))
	})
	try("remove-top-level", func() {
		c := newC(t, "")
		put(c, map[string]types.AttributeValue{"h": S("k1"), "g": S("a"), "v": S("x")})
		_, err := c.UpdateItem(ctx, &dynamodb.UpdateItemInput{TableName: aws.String("tbl"), Key: map[string]types.AttributeValue{"h": S("k1")},
			UpdateExpression: aws.String("REMOVE v")})
		fmt.Println("[remove-top-level] err", err, "base:", scanIdx(c, ""))
	})
	try("unknown-index", func() {
		c := newC(t, "")
		fmt.Println("[unknown-index]", scanIdx(c, "nope"))
	})
}

func TestCondDefects(t *testing.T) {
	try("delete-cond-other-item", func() {
		c := newC(t, "")
		put(c, map[string]types.AttributeValue{"h": S("k1"), "v": S("x")})
		put(c, map[string]types.AttributeValue{"h": S("k2"), "v": S("y")})
		_, err := c.DeleteItem(ctx, &dynamodb.DeleteItemInput{TableName: aws.String("tbl"), Key: map[string]types.AttributeValue{"h": S("k1")},
			ConditionExpression: aws.String("v = :v"), ExpressionAttributeValues: map[string]types.AttributeValue{":v": S("y")}})
		fmt.Println("[delete-cond-other-item] err", err, "base:", scanIdx(c, ""))
	})
	try("delete-cond-empty-table", func() {
		c := newC(t, "")
		_, err := c.DeleteItem(ctx, &dynamodb.DeleteItemInput{TableName: aws.String("tbl"), Key: map[string]types.AttributeValue{"h": S("k1")},
			ConditionExpression: aws.String("attribute_not_exists(h)")})
		fmt.Println("[delete-cond-empty-table] err", err)
	})
	try("type-mismatch-compare", func() {
		c := newC(t, "")
		put(c, map[string]types.AttributeValue{"h": S("k1"), "v": S("x")})
		err := func() error {
			_, err := c.PutItem(ctx, &dynamodb.PutItemInput{TableName: aws.String("tbl"), Item: map[string]types.AttributeValue{"h": S("k1")},
				ConditionExpression: aws.String("v = :v"), ExpressionAttributeValues: map[string]types.AttributeValue{":v": N("1")}})
			return err
		}()
		fmt.Println("[type-mismatch-compare] err", err)
	})
	li := &interpreter.Language{}
	m := func(name, expr string, item map[string]*mt.Item, attrs map[string]*mt.Item, aliases map[string]string) {
		try(name, func() {
			ok, err := li.Match(interpreter.MatchInput{TableName: "t", Expression: expr, ExpressionType: interpreter.ExpressionTypeConditional, Item: item, Attributes: attrs, Aliases: aliases})
			fmt.Printf("[%s] %q -> %v err=%v\n", name, expr, ok, err)
		})
	}
	tr := true
	s := func(x string) *mt.Item { return &mt.Item{S: &x} }
	n := func(x string) *mt.Item { return &mt.Item{N: &x} }
	item := map[string]*mt.Item{"a": s("x"), "nul": {NULL: &tr}, "l": {L: []*mt.Item{s("p")}}, "num": n("1"), "m": {M: map[string]*mt.Item{"q": s("z")}}}
	m("null-exists", "attribute_exists(nul)", item, nil, nil)
	m("ws-only", "   ", item, nil, nil)
	m("arity", "attribute_exists()", item, nil, nil)
	m("arity2", "begins_with(a)", item, nil, nil)
	m("list-oob", "l[3] = :v", item, map[string]*mt.Item{":v": s("p")}, nil)
	m("juxtaposed", "a = :x a = :y", item, map[string]*mt.Item{":x": s("nope"), ":y": s("x")}, nil)
	m("lowercase-and", "a = :x and a = :y", item, map[string]*mt.Item{":x": s("nope"), ":y": s("x")}, nil)
	m("begins-missing", "begins_with(zz, :v)", item, map[string]*mt.Item{":v": s("p")}, nil)
	m("contains-missing", "contains(zz, :v)", item, map[string]*mt.Item{":v": s("p")}, nil)
	m("size-list", "size(l) = :one", item, map[string]*mt.Item{":one": n("1")}, nil)
	m("path-through-scalar", "a.b = :v", item, map[string]*mt.Item{":v": s("p")}, nil)
	m("bigint-eq", "num2 = :v", map[string]*mt.Item{"num2": n("9007199254740993")}, map[string]*mt.Item{":v": n("9007199254740992")}, nil)
	m("undefined-placeholder", "a = :nope", item, nil, nil)
	m("in-noparen", "a IN b :x )", item, map[string]*mt.Item{":x": s("x")}, nil)
	m("not-ident", "NOT a", item, nil, nil)
	m("num-lt-str", "num < a", item, nil, nil)
	m("ne-missing", "zz <> :v", item, map[string]*mt.Item{":v": s("p")}, nil)
	m("lt-missing", "zz < :v", item, map[string]*mt.Item{":v": s("p")}, nil)
	m("bool-cmp", "a = :x OR a = :y AND a = :x", item, map[string]*mt.Item{":x": s("x"), ":y": s("y")}, nil)
	m("reserved", "name = :x", item, map[string]*mt.Item{":x": s("x")}, nil)
	m("reserved-nested", "m.name = :x", item, map[string]*mt.Item{":x": s("x")}, nil)
}
