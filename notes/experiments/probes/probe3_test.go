package probe

import (
	"fmt"
	"sync"
	"testing"

	"github.com/aws/aws-sdk-go-v2/aws"
	"github.com/aws/aws-sdk-go-v2/service/dynamodb"
	"github.com/aws/aws-sdk-go-v2/service/dynamodb/types"
	awsv1 "github.com/aws/aws-sdk-go/aws"
	ddb1 "github.com/aws/aws-sdk-go/service/dynamodb"
	v1 "github.com/truora/minidyn/aws-v1/client"
	v2 "github.com/truora/minidyn/aws-v2/client"
	"github.com/truora/minidyn/interpreter"
	mt "github.com/truora/minidyn/types"
)

func TestAliasing(t *testing.T) {
	try("v1-input-alias", func() {
		c := v1.NewClient()
		v1.AddTable(c, "tbl", "h", "")
		s := "orig"
		item := map[string]*ddb1.AttributeValue{"h": {S: awsv1.String("k")}, "a": {S: &s}, "b": {B: []byte{1, 2}}}
		c.PutItem(&ddb1.PutItemInput{TableName: awsv1.String("tbl"), Item: item})
		s = "mutated"
		item["b"].B[0] = 9
		out, _ := c.GetItem(&ddb1.GetItemInput{TableName: awsv1.String("tbl"), Key: map[string]*ddb1.AttributeValue{"h": {S: awsv1.String("k")}}})
		fmt.Println("[v1-input-alias] a=", *out.Item["a"].S, "b=", out.Item["b"].B)
		*out.Item["a"].S = "viaoutput"
		out2, _ := c.GetItem(&ddb1.GetItemInput{TableName: awsv1.String("tbl"), Key: map[string]*ddb1.AttributeValue{"h": {S: awsv1.String("k")}}})
		fmt.Println("[v1-output-alias] a=", *out2.Item["a"].S)
	})
	try("v2-alias", func() {
		c := newC(t, "")
		b := &types.AttributeValueMemberB{Value: []byte{1, 2}}
		bo := &types.AttributeValueMemberBOOL{Value: true}
		put(c, map[string]types.AttributeValue{"h": S("k"), "b": b, "bo": bo})
		b.Value[0] = 9
		bo.Value = false
		fmt.Println("[v2-input-alias]", get(c, map[string]types.AttributeValue{"h": S("k")}))
		out, _ := c.GetItem(ctx, &dynamodb.GetItemInput{TableName: aws.String("tbl"), Key: map[string]types.AttributeValue{"h": S("k")}})
		out.Item["b"].(*types.AttributeValueMemberB).Value[1] = 7
		fmt.Println("[v2-output-alias]", get(c, map[string]types.AttributeValue{"h": S("k")}))
	})
}

func TestLifecycle(t *testing.T) {
	try("v1v2-describe", func() {
		c := newC(t, "")
		v2.AddIndex(ctx, c, "tbl", "gidx", "g", "")
		put(c, map[string]types.AttributeValue{"h": S("k"), "g": S("a")})
		d, _ := c.DescribeTable(ctx, &dynamodb.DescribeTableInput{TableName: aws.String("tbl")})
		g := d.Table.GlobalSecondaryIndexes[0]
		fmt.Println("[v2-describe] items", *d.Table.ItemCount, "gsi count", *g.ItemCount, "proj", g.Projection)
		c1 := v1.NewClient()
		v1.AddTable(c1, "tbl", "h", "")
		v1.AddIndex(c1, "tbl", "gidx", "g", "")
		c1.PutItem(&ddb1.PutItemInput{TableName: awsv1.String("tbl"), Item: map[string]*ddb1.AttributeValue{"h": {S: awsv1.String("k")}, "g": {S: awsv1.String("a")}}})
		d1, _ := c1.DescribeTable(&ddb1.DescribeTableInput{TableName: awsv1.String("tbl")})
		g1 := d1.Table.GlobalSecondaryIndexes[0]
		fmt.Println("[v1-describe] items", *d1.Table.ItemCount, "gsi count", g1.ItemCount, "proj", g1.Projection)
	})
	try("clear-and-recreate", func() {
		c := newC(t, "")
		v2.AddIndex(ctx, c, "tbl", "gidx", "g", "")
		put(c, map[string]types.AttributeValue{"h": S("k"), "g": S("a")})
		v2.ClearTable(c, "tbl")
		fmt.Println("[clear] base:", scanIdx(c, ""), "idx:", scanIdx(c, "gidx"))
		put(c, map[string]types.AttributeValue{"h": S("k"), "g": S("a")})
		c.DeleteTable(ctx, &dynamodb.DeleteTableInput{TableName: aws.String("tbl")})
		err := v2.AddTable(ctx, c, "tbl", "h", "")
		fmt.Println("[recreate]", err, "base:", scanIdx(c, ""), "idx:", scanIdx(c, "gidx"))
		err = v2.AddTable(ctx, c, "tbl", "h", "")
		fmt.Println("[create-dup]", errClass(err))
		err = v2.AddIndex(ctx, c, "tbl", "gidx", "g", "")
		err2 := v2.AddIndex(ctx, c, "tbl", "gidx", "g", "")
		fmt.Println("[index-dup]", err, err2)
	})
	try("transact-under-internal-failure", func() {
		c := newC(t, "")
		v2.EmulateFailure(c, v2.FailureConditionInternalServerError)
		_, err := c.TransactWriteItems(ctx, &dynamodb.TransactWriteItemsInput{})
		fmt.Println("[transact-under-internal-failure]", err)
	})
	try("native-anagram", func() {
		c := newC(t, "")
		c.ActivateNativeInterpreter()
		hit := ""
		c.GetNativeInterpreter().AddMatcher("tbl", interpreter.ExpressionTypeConditional, "ab = :v", func(a, b map[string]*mt.Item) bool { hit = "ab"; return true })
		put(c, map[string]types.AttributeValue{"h": S("k"), "ba": S("x")})
		_, err := c.PutItem(ctx, &dynamodb.PutItemInput{TableName: aws.String("tbl"), Item: map[string]types.AttributeValue{"h": S("k")},
			ConditionExpression: aws.String("ba = :v"), ExpressionAttributeValues: map[string]types.AttributeValue{":v": S("nomatch")}})
		fmt.Println("[native-anagram] err", err, "hit:", hit)
		hit = ""
		_, err = c.PutItem(ctx, &dynamodb.PutItemInput{TableName: aws.String("tbl"), Item: map[string]types.AttributeValue{"h": S("k")},
			ConditionExpression: aws.String("ab  =  :v"), ExpressionAttributeValues: map[string]types.AttributeValue{":v": S("nomatch")}})
		fmt.Println("[native-extra-ws] err", errClass(err), "hit:", hit)
	})
}

func TestRace(t *testing.T) {
	c := v2.NewClient()
	v2.AddTable(ctx, c, "tbl", "h", "")
	var wg sync.WaitGroup
	for i := 0; i < 4; i++ {
		wg.Add(2)
		i := i
		go func() {
			defer wg.Done()
			for j := 0; j < 200; j++ {
				put(c, map[string]types.AttributeValue{"h": S(fmt.Sprint(i, j))})
			}
		}()
		go func() {
			defer wg.Done()
			for j := 0; j < 200; j++ {
				c.DescribeTable(ctx, &dynamodb.DescribeTableInput{TableName: aws.String("tbl")})
				v2.AddTable(ctx, c, fmt.Sprint("t", i, j), "h", "")
			}
		}()
	}
	wg.Wait()
}
