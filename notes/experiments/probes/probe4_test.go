package probe

import (
	"fmt"
	"os"
	"testing"

	"github.com/aws/aws-sdk-go-v2/aws"
	"github.com/aws/aws-sdk-go-v2/service/dynamodb"
	"github.com/aws/aws-sdk-go-v2/service/dynamodb/types"
	awsv1 "github.com/aws/aws-sdk-go/aws"
	ddb1 "github.com/aws/aws-sdk-go/service/dynamodb"
	v1 "github.com/truora/minidyn/aws-v1/client"
	"github.com/truora/minidyn/interpreter"
	mt "github.com/truora/minidyn/types"
)

func TestMisc(t *testing.T) {
	try("query-mutates-input", func() {
		c := newC(t, "")
		in := &dynamodb.QueryInput{TableName: aws.String("tbl"), KeyConditionExpression: aws.String("h = :h"), ExpressionAttributeValues: map[string]types.AttributeValue{":h": S("a")}}
		c.Query(ctx, in)
		fmt.Println("[query-mutates-input] ScanIndexForward after call:", in.ScanIndexForward != nil)
	})
	try("bs-eq-order", func() {
		li := &interpreter.Language{}
		item := map[string]*mt.Item{"b": {BS: [][]byte{{1}, {2}}}}
		ok, err := li.Match(interpreter.MatchInput{TableName: "t", Expression: "b = :v", ExpressionType: interpreter.ExpressionTypeConditional, Item: item, Attributes: map[string]*mt.Item{":v": {BS: [][]byte{{2}, {1}}}}})
		fmt.Println("[bs-eq-order]", ok, err)
	})
	try("v1-batchget", func() {
		c := v1.NewClient()
		v1.AddTable(c, "tbl", "h", "")
		_, err := c.BatchGetItem(&ddb1.BatchGetItemInput{RequestItems: map[string]*ddb1.KeysAndAttributes{"tbl": {Keys: []map[string]*ddb1.AttributeValue{{"h": {S: awsv1.String("a")}}}}}})
		fmt.Println("[v1-batchget]", err)
	})
	try("v2-put-cond-return-on-failure", func() {
		c := newC(t, "")
		put(c, map[string]types.AttributeValue{"h": S("k"), "v": S("x")})
		_, err := c.PutItem(ctx, &dynamodb.PutItemInput{TableName: aws.String("tbl"), Item: map[string]types.AttributeValue{"h": S("k")},
			ConditionExpression: aws.String("attribute_not_exists(h)"), ReturnValuesOnConditionCheckFailure: types.ReturnValuesOnConditionCheckFailureAllOld})
		var cf *types.ConditionalCheckFailedException
		if e, ok := err.(*types.ConditionalCheckFailedException); ok {
			cf = e
		}
		fmt.Println("[v2-put-cond-return-on-failure]", errClass(err), "item:", cf != nil && len(cf.Item) > 0)
		_, err = c.UpdateItem(ctx, &dynamodb.UpdateItemInput{TableName: aws.String("tbl"), Key: map[string]types.AttributeValue{"h": S("k")}, UpdateExpression: aws.String("SET v = :v"), ExpressionAttributeValues: map[string]types.AttributeValue{":v": S("y")},
			ConditionExpression: aws.String("attribute_not_exists(h)"), ReturnValuesOnConditionCheckFailure: types.ReturnValuesOnConditionCheckFailureAllOld})
		if e, ok := err.(*types.ConditionalCheckFailedException); ok {
			fmt.Println("[v2-update-cond-return-on-failure] item:", dump(e.Item))
		} else {
			fmt.Println("[v2-update-cond-return-on-failure]", err)
		}
	})
}

func TestSelfAlias(t *testing.T) {
	if os.Getenv("SELF_ALIAS") == "" {
		t.Skip()
	}
	li := &interpreter.Language{}
	s := "x"
	ok, err := li.Match(interpreter.MatchInput{TableName: "t", Expression: "#a = :v", ExpressionType: interpreter.ExpressionTypeConditional, Item: map[string]*mt.Item{"b": {S: &s}}, Attributes: map[string]*mt.Item{":v": {S: &s}}, Aliases: map[string]string{"#a": "#a"}})
	fmt.Println("[self-alias]", ok, err)
}
