# writes inputs.ndjson: byte strings with the expected Sentence/not-Sentence label
import json, random
random.seed(2)
def b(s): return [ord(c) for c in s]
cases=[("a = :x",True),("a = :x a = :y",False),("a = :x and b <> :y",True),("NOT a = :x OR b IN (:x, :y)",True),
("(a = :x",False),("attribute_exists(a.b[0])",True),("size(a) > :n",True),("a BETWEEN :x AND :y AND b = :z",True),
("   ",False),("a IN b :x )",False),("a != b",False),("NOT NOT (a < :x)",True),("a.b.c[1].d >= :v",True),("begins_with(a, :p) AND contains(b, :q)",True)]
out=open("inputs.ndjson","w")
for s,ok in cases: out.write(json.dumps({"b":b(s),"ok":ok})+"\n")
for n in range(3000):
    cl=[random.choice(["a%d = :v%d","NOT a%d < :v%d","attribute_exists(a%d.b[%d])","(a%d <> :v%d)"])%(k,k) for k in range(8)]
    out.write(json.dumps({"b":b(" AND ".join(cl)),"ok":True})+"\n")
out.write(json.dumps({"b":b("("*1300+"a = :x"+")"*1300),"ok":True})+"\n")
out.write(json.dumps({"b":b("NOT "*1000+"a = :x"),"ok":True})+"\n")
