---- MODULE Gr ----
EXTENDS Integers, Sequences, TLC, FiniteSets, Json
\* ---------- lexer over byte sequences (index-based) ----------
IsLetter(c) == (c >= 65 /\ c <= 90) \/ (c >= 97 /\ c <= 122)
IsDigit(c) == c >= 48 /\ c <= 57
IsIdStart(c) == IsLetter(c) \/ c = 95 \/ c = 35 \/ c = 58      \* _ # :
IsIdChar(c) == IsLetter(c) \/ IsDigit(c) \/ c = 95 \/ c = 35 \/ c = 58
IsWS(c) == c \in {32, 9, 10, 13}
Upper(c) == IF c >= 97 /\ c <= 122 THEN c - 32 ELSE c
UpperSeq(s) == [i \in 1..Len(s) |-> Upper(s[i])]
KW == [ kand |-> <<65,78,68>>, kor |-> <<79,82>>, knot |-> <<78,79,84>>, kbetween |-> <<66,69,84,87,69,69,78>>, kin |-> <<73,78>> ]
KwOf(s) == LET u == UpperSeq(s) IN
   IF u = KW.kand THEN "AND" ELSE IF u = KW.kor THEN "OR" ELSE IF u = KW.knot THEN "NOT"
   ELSE IF u = KW.kbetween THEN "BETWEEN" ELSE IF u = KW.kin THEN "IN" ELSE "ID"
RECURSIVE IdEnd(_,_)
IdEnd(b, i) == IF i <= Len(b) /\ IsIdChar(b[i]) THEN IdEnd(b, i+1) ELSE i
RECURSIVE LexFrom(_,_,_)
LexFrom(b, i, acc) ==
  IF i > Len(b) THEN acc
  ELSE LET c == b[i] IN
    IF IsWS(c) THEN LexFrom(b, i+1, acc)
    ELSE IF IsIdStart(c) \/ IsDigit(c) THEN
         LET j == IdEnd(b, i) s == SubSeq(b, i, j-1) IN LexFrom(b, j, Append(acc, [t |-> KwOf(s), s |-> s]))
    ELSE IF c = 60 /\ i < Len(b) /\ b[i+1] = 62 THEN LexFrom(b, i+2, Append(acc, [t |-> "<>", s |-> <<>>]))
    ELSE IF c = 60 /\ i < Len(b) /\ b[i+1] = 61 THEN LexFrom(b, i+2, Append(acc, [t |-> "<=", s |-> <<>>]))
    ELSE IF c = 62 /\ i < Len(b) /\ b[i+1] = 61 THEN LexFrom(b, i+2, Append(acc, [t |-> ">=", s |-> <<>>]))
    ELSE IF c = 60 THEN LexFrom(b, i+1, Append(acc, [t |-> "<", s |-> <<>>]))
    ELSE IF c = 62 THEN LexFrom(b, i+1, Append(acc, [t |-> ">", s |-> <<>>]))
    ELSE IF c = 61 THEN LexFrom(b, i+1, Append(acc, [t |-> "=", s |-> <<>>]))
    ELSE IF c = 40 THEN LexFrom(b, i+1, Append(acc, [t |-> "(", s |-> <<>>]))
    ELSE IF c = 41 THEN LexFrom(b, i+1, Append(acc, [t |-> ")", s |-> <<>>]))
    ELSE IF c = 44 THEN LexFrom(b, i+1, Append(acc, [t |-> ",", s |-> <<>>]))
    ELSE IF c = 46 THEN LexFrom(b, i+1, Append(acc, [t |-> ".", s |-> <<>>]))
    ELSE IF c = 91 THEN LexFrom(b, i+1, Append(acc, [t |-> "[", s |-> <<>>]))
    ELSE IF c = 93 THEN LexFrom(b, i+1, Append(acc, [t |-> "]", s |-> <<>>]))
    ELSE LexFrom(b, i+1, Append(acc, [t |-> "ILLEGAL", s |-> <<c>>]))
Lex(b) == LexFrom(b, 1, <<>>)
\* ---------- parser (recogniser with AST) ----------
Fail == [ok |-> FALSE, ast |-> [k |-> "none"], p |-> 0]
Tok(ts, p) == IF p <= Len(ts) THEN ts[p].t ELSE "EOF"
Cmp == {"=", "<>", "<", "<=", ">", ">="}
RECURSIVE PathRest(_,_,_)
PathRest(ts, p, acc) ==
  IF Tok(ts,p) = "." /\ Tok(ts,p+1) = "ID" THEN PathRest(ts, p+2, Append(acc, [f |-> ts[p+1].s]))
  ELSE IF Tok(ts,p) = "[" /\ Tok(ts,p+1) = "ID" /\ Tok(ts,p+2) = "]" THEN PathRest(ts, p+3, Append(acc, [i |-> ts[p+1].s]))
  ELSE [ok |-> TRUE, ast |-> [k |-> "path", steps |-> acc], p |-> p]
Operand(ts, p) == IF Tok(ts,p) = "ID" THEN PathRest(ts, p+1, <<[f |-> ts[p].s]>>) ELSE Fail
RECURSIVE ArgList(_,_,_)
ArgList(ts, p, acc) ==
  LET o == Operand(ts, p) IN
  IF ~o.ok THEN Fail
  ELSE IF Tok(ts, o.p) = "," THEN ArgList(ts, o.p+1, Append(acc, o.ast))
  ELSE IF Tok(ts, o.p) = ")" THEN [ok |-> TRUE, ast |-> [k |-> "args", a |-> Append(acc, o.ast)], p |-> o.p+1]
  ELSE Fail
RECURSIVE POr(_,_), PAnd(_,_), PNot(_,_), PPrim(_,_), POrRest(_,_,_), PAndRest(_,_,_)
PPrim(ts, p) ==
  IF Tok(ts,p) = "(" THEN
     LET r == POr(ts, p+1) IN IF r.ok /\ Tok(ts, r.p) = ")" THEN [r EXCEPT !.p = r.p+1] ELSE Fail
  ELSE IF Tok(ts,p) = "ID" /\ Tok(ts,p+1) = "(" THEN
     LET a == ArgList(ts, p+2, <<>>) IN
       IF ~a.ok THEN Fail
       ELSE IF Tok(ts, a.p) \in Cmp THEN
            LET r == Operand(ts, a.p+1) IN IF r.ok THEN [ok |-> TRUE, ast |-> [k |-> "cmp", op |-> Tok(ts,a.p), l |-> [k |-> "fn", n |-> ts[p].s, a |-> a.ast.a], r |-> r.ast], p |-> r.p] ELSE Fail
       ELSE [ok |-> TRUE, ast |-> [k |-> "fn", n |-> ts[p].s, a |-> a.ast.a], p |-> a.p]
  ELSE LET l == Operand(ts, p) IN
     IF ~l.ok THEN Fail
     ELSE IF Tok(ts, l.p) \in Cmp THEN
          LET r == Operand(ts, l.p+1) IN IF r.ok THEN [ok |-> TRUE, ast |-> [k |-> "cmp", op |-> Tok(ts,l.p), l |-> l.ast, r |-> r.ast], p |-> r.p] ELSE Fail
     ELSE IF Tok(ts, l.p) = "BETWEEN" THEN
          LET a == Operand(ts, l.p+1) IN
            IF a.ok /\ Tok(ts, a.p) = "AND" THEN
               LET b == Operand(ts, a.p+1) IN IF b.ok THEN [ok |-> TRUE, ast |-> [k |-> "between", x |-> l.ast, lo |-> a.ast, hi |-> b.ast], p |-> b.p] ELSE Fail
            ELSE Fail
     ELSE IF Tok(ts, l.p) = "IN" /\ Tok(ts, l.p+1) = "(" THEN
          LET a == ArgList(ts, l.p+2, <<>>) IN IF a.ok THEN [ok |-> TRUE, ast |-> [k |-> "in", x |-> l.ast, a |-> a.ast.a], p |-> a.p] ELSE Fail
     ELSE Fail
PNot(ts, p) == IF Tok(ts,p) = "NOT" THEN LET r == PNot(ts, p+1) IN IF r.ok THEN [r EXCEPT !.ast = [k |-> "not", e |-> r.ast]] ELSE Fail
               ELSE PPrim(ts, p)
PAndRest(ts, l, p) == IF Tok(ts,p) = "AND" THEN LET r == PNot(ts, p+1) IN IF r.ok THEN PAndRest(ts, [k |-> "and", l |-> l, r |-> r.ast], r.p) ELSE Fail
                      ELSE [ok |-> TRUE, ast |-> l, p |-> p]
PAnd(ts, p) == LET l == PNot(ts, p) IN IF l.ok THEN PAndRest(ts, l.ast, l.p) ELSE Fail
POrRest(ts, l, p) == IF Tok(ts,p) = "OR" THEN LET r == PAnd(ts, p+1) IN IF r.ok THEN POrRest(ts, [k |-> "or", l |-> l, r |-> r.ast], r.p) ELSE Fail
                     ELSE [ok |-> TRUE, ast |-> l, p |-> p]
POr(ts, p) == LET l == PAnd(ts, p) IN IF l.ok THEN POrRest(ts, l.ast, l.p) ELSE Fail
ParseCond(b) == LET ts == Lex(b) r == POr(ts, 1) IN IF r.ok /\ r.p = Len(ts) + 1 THEN r ELSE Fail
Sentence(b) == ParseCond(b).ok
\* ---------- experiment ----------
Inputs == ndJsonDeserialize("inputs.ndjson")
VARIABLE i
Init == i = 1
Next == /\ i <= Len(Inputs)
        /\ Sentence(Inputs[i].b) = Inputs[i].ok
        /\ i' = i + 1
        /\ TLCSet(1, i')
Accepted == IF TLCGet(1) = Len(Inputs) + 1 THEN TRUE ELSE Print(<<"REJECTED", TLCGet(1)>>, FALSE)
====
