import json, random
random.seed(1)
keys=["k%d"%i for i in range(1,7)]
def S(s): return {"t":"S","v":[ord(c) for c in s]}
def N(n): return {"t":"N","v":{"neg":False,"d":[int(c) for c in str(n)],"e":0}}
out=open("trace.ndjson","w")
n_tr=int(__import__('sys').argv[1]); L=int(__import__('sys').argv[2])
for t in range(n_tr):
    db={}
    out.write(json.dumps({"op":"reset"})+"\n")
    for i in range(L):
        k=random.choice(keys)
        r=random.random()
        if r<0.5:
            item={"h":S(k)}
            if random.random()<0.7: item["g"]=S(random.choice("ab"))
            if random.random()<0.7: item["v"]=N(random.randint(0,99))
            db[k]=item
            ev={"op":"put","k":k,"item":item,"res":{"err":"none"}}
        elif r<0.7:
            old=db.pop(k,None)
            ev={"op":"del","k":k,"res":{"err":"none","old":[old] if old else []}}
        else:
            ev={"op":"get","k":k,"res":{"err":"none","item":[db[k]] if k in db else []}}
        scan=[db[x] for x in sorted(db)]
        idx=sorted([db[x] for x in db if "g" in db[x]], key=lambda it:(it["g"]["v"], it["h"]["v"]))
        ev["obs"]={"scan":scan,"idx":idx,"count":len(scan),"icount":len(idx)}
        out.write(json.dumps(ev)+"\n")
