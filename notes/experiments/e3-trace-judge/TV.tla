---- MODULE TV ----
EXTENDS Integers, Sequences, TLC, Json, FiniteSets, SequencesExt
Trace == ndJsonDeserialize("trace.ndjson")
VARIABLES l, db
vars == <<l, db>>
RECURSIVE SeqLess(_,_)
SeqLess(a,b) == IF a = <<>> THEN b # <<>> ELSE IF b = <<>> THEN FALSE ELSE IF a[1] < b[1] THEN TRUE ELSE IF a[1] > b[1] THEN FALSE ELSE SeqLess(Tail(a), Tail(b))
ItemsOf(d) == {d[k] : k \in DOMAIN d}
IndexViewOf(d) == {it \in ItemsOf(d) : "g" \in DOMAIN it}
NonDecreasing(s, attr) == \A i \in 1..(Len(s)-1) : ~SeqLess(s[i+1][attr].v, s[i][attr].v)
ObsOK(d, o) == /\ Range(o.scan) = ItemsOf(d) /\ Len(o.scan) = Cardinality(ItemsOf(d)) /\ o.count = Len(o.scan)
            /\ Range(o.idx) = IndexViewOf(d) /\ Len(o.idx) = Cardinality(IndexViewOf(d)) /\ o.icount = Len(o.idx)
            /\ NonDecreasing(o.idx, "g")
Init == l = 1 /\ db = <<>>
Reset == Trace[l].op = "reset" /\ db' = <<>>
Put == /\ Trace[l].op = "put"
       /\ db' = (Trace[l].k :> Trace[l].item) @@ db
       /\ Trace[l].res.err = "none"
       /\ ObsOK(db', Trace[l].obs)
Del == /\ Trace[l].op = "del"
       /\ db' = [x \in DOMAIN db \ {Trace[l].k} |-> db[x]]
       /\ Trace[l].res.old = (IF Trace[l].k \in DOMAIN db THEN <<db[Trace[l].k]>> ELSE <<>>)
       /\ ObsOK(db', Trace[l].obs)
Get == /\ Trace[l].op = "get"
       /\ UNCHANGED db
       /\ Trace[l].res.item = (IF Trace[l].k \in DOMAIN db THEN <<db[Trace[l].k]>> ELSE <<>>)
       /\ ObsOK(db', Trace[l].obs)
Next == /\ l <= Len(Trace)
        /\ (Reset \/ Put \/ Del \/ Get)
        /\ l' = l + 1
        /\ TLCSet(1, l')
Accepted == IF TLCGet(1) = Len(Trace) + 1 THEN TRUE ELSE Print(<<"REJECTED at event", TLCGet(1), Trace[TLCGet(1)].op>>, FALSE)
====
