---- MODULE G ----
EXTENDS Naturals, Sequences, TLC, Json, FiniteSets
CONSTANTS Keys, GVals, VVals
VARIABLES db, path
\* item = [g |-> x, v |-> y] with "none" for absent
Absent == [g |-> "ABSENT", v |-> "ABSENT"]
Items == [g : GVals, v : VVals]
Init == db = [k \in Keys |-> Absent] /\ path = <<>>
Put(k,it) == db' = [db EXCEPT ![k] = it] /\ path' = Append(path, [op |-> "put", k |-> k, item |-> it])
Del(k) == db' = [db EXCEPT ![k] = Absent] /\ path' = Append(path, [op |-> "del", k |-> k])
UpdG(k,g) == /\ db' = [db EXCEPT ![k] = IF db[k] = Absent THEN [g |-> g, v |-> "none"] ELSE [db[k] EXCEPT !.g = g]]
             /\ path' = Append(path, [op |-> "updg", k |-> k, g |-> g])
Next == \/ \E k \in Keys, it \in Items : Put(k,it)
        \/ \E k \in Keys : Del(k)
        \/ \E k \in Keys, g \in GVals : UpdG(k,g)
Emit == PrintT(ToJson([path |-> path']))
View == db
====
