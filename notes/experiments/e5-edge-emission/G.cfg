INIT Init
NEXT Next
ACTION_CONSTRAINT Emit
VIEW View
CONSTANTS
Keys = {"k1","k2","k3","k4"}
GVals = {"none","a","b"}
VVals = {"none","1","2"}
