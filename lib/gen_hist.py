"""Channel R for the data plane: seeded random operation histories over a domain too large to enumerate (12 keys in 3
partitions, nested values, two global secondary indexes created before or after the data, conditions, updates, queries,
page walks, batches, failure toggles, clears).  The histories are only GENERATED here; every answer of the real clients
and every post-state is judged by TLC (Trace.tla).  Generators stay inside the positions where the specification is a
function (no lenient positions, no open-finding territory: string keys without '.', integers of at most 6 digits)."""
import random
from ops import *

T = "tbl1"
PARTS = ["pa", "pb", "pc"]
RANGES = ["r0", "r1", "r10", "r2"]
GS = ["g0", "g1", "g2"]
SS_ = ["s0", "s1"]


def rand_item(rnd, key):
    it = dict(key)
    if rnd.random() < 0.8:
        it["v"] = N(str(rnd.randrange(0, 5)))
    if rnd.random() < 0.5:
        it["w"] = S(rnd.choice(["x", "xy", "z"]))
    if rnd.random() < 0.6:
        it["g"] = S(rnd.choice(GS))
    if rnd.random() < 0.5:
        it["s"] = S(rnd.choice(SS_))
    if rnd.random() < 0.3:
        it["m"] = M(a=N(str(rnd.randrange(0, 3))), b=S("q"))
    if rnd.random() < 0.3:
        it["l"] = L(S("e0"), N(str(rnd.randrange(0, 3))))
    if rnd.random() < 0.2:
        it["tags"] = SS("t1", rnd.choice(["t2", "t3"]))
    if rnd.random() < 0.15:
        it["flag"] = BOOL(rnd.random() < 0.5)
    if rnd.random() < 0.1:
        it["nul"] = NULL
    return it


def rand_cond(rnd):
    c = rnd.randrange(8)
    if c == 0:
        return fn("attribute_exists", path("h")), {}, {}
    if c == 1:
        return fn("attribute_not_exists", path("h")), {}, {}
    if c == 2:
        return cmp("=", path("v"), val(":cv")), {}, {":cv": N(str(rnd.randrange(0, 5)))}
    if c == 3:
        return cmp("<>", path("v"), val(":cv")), {}, {":cv": N(str(rnd.randrange(0, 5)))}
    if c == 4:
        return and_(cmp("<", path("v"), val(":cv")), fn("attribute_exists", path("#w"))), {"#w": "w"}, {":cv": N(str(rnd.randrange(1, 5)))}
    if c == 5:
        return not_(or_(cmp("=", path("v"), val(":cv")), cmp("=", path("w"), val(":cw")))), {}, {":cv": N("1"), ":cw": S("x")}
    if c == 6:
        return fn("begins_with", path("w"), val(":cw")), {}, {":cw": S("x")}
    return between(path("v"), val(":lo"), val(":hi")), {}, {":lo": N("1"), ":hi": N("3")}


def rand_update(rnd):
    u = rnd.randrange(10)
    if u == 0:
        return upd(set=[(P("v"), val(":n"))]), {":n": N(str(rnd.randrange(0, 5)))}
    if u == 1:
        return upd(set=[(P("w"), val(":s"))]), {":s": S(rnd.choice(["x", "xy", "z"]))}
    if u == 2:
        return upd(remove=[P("w")]), {}
    if u == 3:
        return upd(add=[(P("v"), val(":one"))]), {":one": N("1")}
    if u == 4:
        return upd(set=[(P("g"), val(":g"))]), {":g": S(rnd.choice(GS))}
    if u == 5:
        return upd(remove=[P("g")]), {}
    if u == 6:
        return upd(set=[(P("s"), val(":s"))], remove=[P("nul")]), {":s": S(rnd.choice(SS_))}
    if u == 7:
        return upd(set=[(P("v"), {"k": "plus", "l": {"k": "ine", "p": P("v"), "v": val(":z")}, "r": val(":one")})]), {":z": N("0"), ":one": N("1")}
    if u == 8:
        return upd(set=[(P("m"), val(":m"))]), {":m": M(a=N("1"))}
    return upd(add=[(P("tags"), val(":t"))]), {":t": SS("t9")}


def rand_read(rnd, has_range, indexes):
    names, values = {}, {}
    filt = None
    if rnd.random() < 0.4:
        f = rnd.randrange(3)
        if f == 0:
            filt, values = cmp("=", path("v"), val(":fv")), {":fv": N(str(rnd.randrange(0, 5)))}
        elif f == 1:
            filt = fn("attribute_exists", path("w"))
        else:
            filt, values = fn("contains", path("w"), val(":fw")), {":fw": S("y")}
    ix = rnd.choice([None] + indexes) if indexes else None
    if rnd.random() < 0.35:
        return scan(T, index=ix, filter=filt, names=names, values=values)
    if ix is None:
        kc = cmp("=", path("h"), val(":hk")); values[":hk"] = S(rnd.choice(PARTS)); sort = "r" if has_range else None; svals = RANGES
    else:
        kc = cmp("=", path("g"), val(":hk")); values[":hk"] = S(rnd.choice(GS)); sort = "s" if ix == "gsx" else None; svals = SS_
    if sort and rnd.random() < 0.5:
        op = rnd.choice(["=", "<", "<=", ">", ">=", "bw", "between"])
        if op == "bw":
            kc = and_(kc, fn("begins_with", path(sort), val(":sk"))); values[":sk"] = S(rnd.choice(svals)[:2])
        elif op == "between":
            a, b = sorted([rnd.choice(svals), rnd.choice(svals)])
            kc = and_(kc, between(path(sort), val(":sk"), val(":sk2"))); values[":sk"] = S(a); values[":sk2"] = S(b)
        else:
            kc = and_(kc, cmp(op, path(sort), val(":sk"))); values[":sk"] = S(rnd.choice(svals))
    return query(T, kc, index=ix, filter=filt, names=names, values=values, fwd=rnd.random() < 0.7)


def history(rnd, length):
    has_range = rnd.random() < 0.7
    keys = [{"h": S(p), "r": S(r)} for p in PARTS for r in RANGES] if has_range else [{"h": S(p + r)} for p in PARTS for r in RANGES]
    ops = [add_table(T, "h", "r" if has_range else "")]
    pending = [("gix", "g", ""), ("gsx", "g", "s")]
    rnd.shuffle(pending)
    indexes = []
    early = rnd.randrange(0, 3)
    for _ in range(early):
        n, hk, rk = pending.pop()
        ops.append(add_index(T, n, hk, rk)); indexes.append(n)
    failing = False
    while len(ops) < length:
        k = rnd.choice(keys)
        x = rnd.random()
        if pending and x < 0.03:
            n, hk, rk = pending.pop()
            ops.append(add_index(T, n, hk, rk)); indexes.append(n)
        elif x < 0.30:
            if rnd.random() < 0.25:
                c, names, values = rand_cond(rnd)
                ops.append(put(T, rand_item(rnd, k), cond=cond(c), names=names, values=values))
            else:
                ops.append(put(T, rand_item(rnd, k)))
        elif x < 0.50:
            u, values = rand_update(rnd)
            if rnd.random() < 0.3:
                c, names, cvals = rand_cond(rnd)
                values = dict(values); values.update(cvals)
                ops.append(update(T, k, u, cond=cond(c), names=names, values=values, rvf=rnd.random() < 0.5))
            else:
                ops.append(update(T, k, u, values=values))
        elif x < 0.60:
            if rnd.random() < 0.3:
                c, names, values = rand_cond(rnd)
                ops.append(delete(T, k, cond=cond(c), names=names, values=values, retold=rnd.random() < 0.5))
            else:
                ops.append(delete(T, k, retold=rnd.random() < 0.5))
        elif x < 0.68:
            ops.append(get(T, k))
        elif x < 0.80:
            ops.append(rand_read(rnd, has_range, indexes))
        elif x < 0.88:
            ops.append(walk(rand_read(rnd, has_range, indexes), rnd.randrange(1, 5), delete=(not failing) and rnd.random() < 0.3))
        elif x < 0.93:
            ks = rnd.sample(keys, rnd.randrange(1, 5))
            ops.append(batch_write([(T, "put", rand_item(rnd, kk)) if rnd.random() < 0.6 else (T, "del", kk) for kk in ks]))
        elif x < 0.96:
            mode = rnd.choice(["internal", "deprecated", "none", "deactivate"])
            failing = mode in ("internal", "deprecated")
            ops.append(fail(mode))
        elif x < 0.97:
            ops.append(describe(T))
        else:
            ops.append(clear(T))
    return ops


def generate(n, seed, length=40):
    rnd = random.Random(seed)
    return [history(random.Random(rnd.getrandbits(60)), length) for _ in range(n)]


# ---- native-interpreter histories (C20): registrations and requests in random order, reads included, so that
# ---- dispatch decisions that depend on what happened earlier (caches, shared registries) are exercised
def _bs(t): return [ord(c) for c in t]


def native_history(rnd, length):
    item = {"h": S("a"), "ab": S("x"), "ba": S("y")}
    texts = {"ab": ["ab = :v", "ab  =  :v", " ab = :v "], "ba": ["ba = :v"], "h": ["h = :v", "h  = :v"]}
    ast = {"ab": cmp("=", path("ab"), val(":v")), "ba": cmp("=", path("ba"), val(":v")), "h": cmp("=", path("h"), val(":v"))}
    vals = {"ab": {":v": S("x")}, "ba": {":v": S("x")}, "h": {":v": S("a")}}
    ops = [add_table("tbl1", "h"), add_table("tbl2", "h"), put("tbl1", item), put("tbl2", item)]
    if rnd.random() < 0.5:
        ops.insert(rnd.randrange(0, 3), {"op": "NativeActivate", "c": "c1"})
    nid = 0
    while len(ops) < length:
        x = rnd.random()
        t = rnd.choice(["tbl1", "tbl1", "tbl2"])
        a = rnd.choice(["ab", "ba", "h"])
        text = rnd.choice(texts[a])
        if x < 0.22:
            nid += 1
            kind = rnd.choice(["conditional", "filter", "key"])
            ops.append({"op": "AddMatcher", "c": "c1", "t": t, "mkind": kind, "text": _bs(text), "id": "m%d" % nid, "verdict": rnd.random() < 0.5})
        elif x < 0.28:
            nid += 1
            ops.append({"op": "AddUpdater", "c": "c1", "t": t, "text": _bs("SET ab = :v"), "id": "u%d" % nid, "attr": "mark", "val": S("u%d" % nid)})
        elif x < 0.31:
            ops.append({"op": "NativeActivate", "c": "c1"})
        elif x < 0.34:
            ops.append({"op": "NativeSwap", "c": "c1"})      # SetInterpreter(another instance holding the same registrations)
        elif x < 0.55:
            d = put(t, item, cond=cond(ast[a]), values=vals[a]); d["condtext"] = _bs(text); ops.append(d)
        elif x < 0.70:
            d = scan(t, filter=ast[a], values=vals[a]); d["filtertext"] = _bs(text); ops.append(d)
        elif x < 0.85:
            d = query(t, ast["h"], values=vals["h"]); d["kctext"] = _bs(rnd.choice(texts["h"])); ops.append(d)
        elif x < 0.93:
            d = update(t, {"h": S("a")}, upd(set=[(P("ab"), val(":v"))]), values={":v": S("x")}); d["updtext"] = _bs(rnd.choice(["SET ab = :v", "SET  ab = :v"])); ops.append(d)
        else:
            ops.append(put(t, item))
    return ops


def generate_native(n, seed, length=30):
    rnd = random.Random(seed)
    return [native_history(random.Random(rnd.getrandbits(60)), length) for _ in range(n)]
