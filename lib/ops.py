"""Constructors for operation records (mirror of spec/ModelLib.tla) used to write witness files."""
import json

def S(s): return {"t": "S", "s": [ord(c) for c in s]} if isinstance(s, str) else {"t": "S", "s": list(s)}
def B(b): return {"t": "B", "b": list(b)}
def N(text):
    t = str(text); neg = t.startswith("-"); t = t.lstrip("+-")
    mant, _, ex = t.lower().partition("e")
    ip, _, fp = mant.partition(".")
    return {"t": "N", "n": {"neg": neg, "d": [int(c) for c in ip + fp], "e": (int(ex) if ex else 0) - len(fp), "sp": [ord(c) for c in str(text)]}}
def BOOL(b): return {"t": "BOOL", "bool": b}
NULL = {"t": "NULL", "null": 0}
def L(*xs): return {"t": "L", "l": list(xs)}
def M(**kw): return {"t": "M", "m": kw}
def SS(*xs): return {"t": "SS", "ss": [[ord(c) for c in x] for x in xs]}
def NS(*xs): return {"t": "NS", "ns": [N(x)["n"] for x in xs]}
def BS(*xs): return {"t": "BS", "bs": [list(x) for x in xs]}

NOCOND = {"some": False, "ast": {"k": "none"}}
def cond(ast): return {"some": True, "ast": ast}
def step(n): return {"s": "a" if n.startswith("#") else "n", "n": n, "i": 0}
def idx(i): return {"s": "i", "n": "", "i": i}
def path(*steps): return {"k": "path", "p": [step(s) if isinstance(s, str) else idx(s) for s in steps]}
def P(*steps): return [step(s) if isinstance(s, str) else idx(s) for s in steps]
def val(n): return {"k": "val", "n": n}
def size(*steps): return {"k": "size", "p": P(*steps)}
def cmp(op, l, r): return {"k": "cmp", "op": op, "l": l, "r": r}
def fn(f, *args): return {"k": "fn", "f": f, "args": list(args)}
def and_(l, r): return {"k": "and", "l": l, "r": r}
def or_(l, r): return {"k": "or", "l": l, "r": r}
def not_(x): return {"k": "not", "x": x}
def between(x, lo, hi): return {"k": "between", "x": x, "lo": lo, "hi": hi}
def in_(x, *xs): return {"k": "in", "x": x, "xs": list(xs)}
def upd(set=(), remove=(), add=(), delete=()):
    return {"set": [{"p": p, "v": v} for p, v in set], "remove": list(remove), "add": [{"p": p, "v": v} for p, v in add],
            "del": [{"p": p, "v": v} for p, v in delete]}

def add_table(t, h, r="", c="c1"): return {"op": "AddTable", "c": c, "t": t, "hash": h, "range": r}
def add_index(t, ix, h, r="", c="c1"): return {"op": "AddIndex", "c": c, "t": t, "index": ix, "hash": h, "range": r}
def delete_index(t, ix, c="c1"): return {"op": "DeleteIndex", "c": c, "t": t, "index": ix}
def describe(t, c="c1"): return {"op": "DescribeTable", "c": c, "t": t}
def delete_table(t, c="c1"): return {"op": "DeleteTable", "c": c, "t": t}
def clear(t, c="c1"): return {"op": "ClearTable", "c": c, "t": t}
def put(t, item, cond=NOCOND, names=None, values=None, rvf=False, c="c1"):
    return {"op": "PutItem", "c": c, "t": t, "item": item, "cond": cond, "names": names or {}, "values": values or {}, "rvf": rvf}
def get(t, key, c="c1"): return {"op": "GetItem", "c": c, "t": t, "key": key}
def update(t, key, u, cond=NOCOND, names=None, values=None, rvf=False, c="c1"):
    return {"op": "UpdateItem", "c": c, "t": t, "key": key, "upd": u, "cond": cond, "names": names or {}, "values": values or {}, "rvf": rvf}
def delete(t, key, cond=NOCOND, names=None, values=None, retold=False, rvf=False, c="c1"):
    return {"op": "DeleteItem", "c": c, "t": t, "key": key, "cond": cond, "names": names or {}, "values": values or {}, "retold": retold, "rvf": rvf}
NOIDX = {"some": False, "n": ""}
def scan(t, index=None, filter=None, names=None, values=None, limit=None, esk=None, c="c1"):
    return {"op": "Scan", "c": c, "t": t, "kind": "scan", "index": {"some": True, "n": index} if index else NOIDX,
            "filter": cond(filter) if filter else NOCOND, "names": names or {}, "values": values or {},
            "limit": {"some": limit is not None, "n": limit or 0}, "esk": {"some": esk is not None, "k": esk or {}}}
def query(t, kc, index=None, filter=None, names=None, values=None, fwd=True, limit=None, esk=None, c="c1"):
    d = scan(t, index, filter, names, values, limit, esk, c)
    d.update(op="Query", kind="query", kc=kc, fwd=fwd)
    return d
def walk(base, limit, delete=False):
    d = dict(base); d.update(op="Walk", limit={"some": True, "n": limit}); d["del"] = delete
    return d
def fail(mode, c="c1"): return {"op": "Fail", "c": c, "mode": mode}
def batch_write(reqs, c="c1"):
    out = []
    for t, kind, x in reqs:
        out.append({"t": t, "put": {"some": kind in ("put", "both"), "i": x if kind in ("put", "both") else {}},
                    "del": {"some": kind in ("del", "both"), "k": x if kind in ("del", "both") else {}}})
    return {"op": "BatchWrite", "c": c, "reqs": out}
def batch_get(reqs, c="c1"): return {"op": "BatchGet", "c": c, "reqs": [{"t": t, "keys": ks} for t, ks in reqs]}
def transact(c="c1"): return {"op": "Transact", "c": c}

def write(path, ops):
    with open(path, "w") as f:
        for o in ops:
            f.write(json.dumps(o, sort_keys=True) + "\n")
