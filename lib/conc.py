"""C11 stage: record concurrent histories of the real clients under the race detector and let TLC search a linearization."""
import concurrent.futures as cf
import json
import os
import shutil

import pipeline as P


def run(prop, tier, seed, wd):
    cfgs = prop[tier]
    P.build_race()
    jobs = []
    for st in cfgs:
        for sdk in ("v1", "v2"):
            for i in range(st["seeds"]):
                jobs.append((sdk, st["scenario"], seed * 1000 + i, st["g"], st["n"], st.get("race", True)))
    recs = []
    with cf.ThreadPoolExecutor(max_workers=4) as ex:
        futs = [ex.submit(P.record_history, sdk, sc, sd, g, n, wd, race) for sdk, sc, sd, g, n, race in jobs]
        for (sdk, sc, sd, g, n, race), f in zip(jobs, futs):
            r = f.result()
            r.update(sdk=sdk, scenario=sc, seed=sd, g=g, n=n, race=race)
            recs.append(r)
    todo = [r for r in recs if r["path"]]
    with cf.ThreadPoolExecutor(max_workers=P.NJUDGE) as ex:
        for r, res in zip(todo, ex.map(lambda r: P.linearize(r["path"], r["sdk"]), todo)):
            r.update(res)
            r["ops"] = sum(1 for _ in open(r["path"]))
    return recs
