"""C11 stage: record concurrent histories of the real clients under the race detector and let TLC search a linearization."""
import concurrent.futures as cf
import json
import os
import shutil

import pipeline as P


def run(prop, tier, seed, wd):
    cfgs = prop[tier]
    P.build_race()
    jobs = []
    for st in cfgs:
        for sdk in ("v1", "v2"):
            for i in range(st["seeds"]):
                jobs.append((sdk, st["scenario"], seed * 1000 + i, st["g"], st["n"], st.get("race", True), st.get("lin", True)))
    recs = []
    with cf.ThreadPoolExecutor(max_workers=4) as ex:
        futs = [ex.submit(P.record_history, sdk, sc, sd, g, n, wd, race) for sdk, sc, sd, g, n, race, lin in jobs]
        for (sdk, sc, sd, g, n, race, lin), f in zip(jobs, futs):
            r = f.result()
            r.update(sdk=sdk, scenario=sc, seed=sd, g=g, n=n, race=race, lin=lin)
            recs.append(r)
    # lin = False: a scenario recorded for the race detector and for crashes only (many commuting writes with equal stamps make the
    # search for a linearization explode without adding anything)
    for r in recs:
        if r["path"] and not r["lin"]:
            r.update(linearizable=True, states=0, ops=sum(1 for _ in open(r["path"])))
    todo = [r for r in recs if r["path"] and r["lin"]]
    with cf.ThreadPoolExecutor(max_workers=P.NJUDGE) as ex:
        for r, res in zip(todo, ex.map(lambda r: P.linearize(r["path"], r["sdk"]), todo)):
            r.update(res)
            r["ops"] = sum(1 for _ in open(r["path"]))
    return recs
