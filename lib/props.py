"""Per-property check definitions: which bounded models are enumerated at each tier, and which named
parts of the judge's acceptance condition state the property (DESIGN.md 4.3 "one property, one verdict")."""
import re


def G(model, **kw):
    d = dict(kind="G", model=model)
    d.update(kw)
    return d


# parts are "<r1|r2|o1|o2>.<Name>" or "Sdk.Equal"
def parts(*names):
    return re.compile(r"^(r1|r2|o1|o2)\.(%s)$" % "|".join(names))


SDK = re.compile(r"^Sdk\.Equal$")

PROPS = {
    "C01": dict(
        title="single-item operations behave as a key->item map",
        quick=[G("M_C01a")],
        thorough=[G("M_C01a"), G("M_C01b")],
        own=[parts("Outcome", "ErrClass", "Data", "Base", "Desc", "Catalog")],
        design_ref="DESIGN.md 6 C01",
    ),
}
