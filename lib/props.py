"""Per-property check definitions: which bounded models are enumerated at each tier, and which named
parts of the judge's acceptance condition state the property (DESIGN.md 4.3 "one property, one verdict")."""
import re


def G(model, **kw):
    d = dict(kind="G", model=model)
    d.update(kw)
    return d


# parts are "<r1|r2|o1|o2>.<Name>" or "Sdk.Equal"
def parts(*names):
    return re.compile(r"^(r1|r2|o1|o2)\.(%s)$" % "|".join(names))


SDK = re.compile(r"^Sdk\.Equal$")

PROPS = {
    "C01": dict(
        title="single-item operations behave as a key->item map",
        quick=[G("M_C01a")],
        thorough=[G("M_C01a"), G("M_C01b")],
        own=[parts("Outcome", "ErrClass", "Data", "Base", "Desc", "Catalog")],
        design_ref="DESIGN.md 6 C01",
        level_text="Every (state, operation) transition of a bounded key->item model (3 keys, Put/Update/Delete/Get menus) is "
                   "enumerated by TLC, replayed on both real clients, and every answer plus the full post-state (GetItem of every "
                   "key, Scan, DescribeTable) is judged by TLC against the specification; exhaustive within the bounds.",
    ),
}
PROPS["C03"] = dict(
    title="secondary indexes always mirror the base table",
    quick=[G("M_IDX")],
    thorough=[G("M_IDX", cfg="M_IDX_t")],
    own=[parts("Index", "IdxCount", "IdxDesc")],
    design_ref="DESIGN.md 6 C03",
    level_text="Every history of put / overwrite / update / delete / clear / create-index / delete-index over a bounded table with two "
               "global secondary indexes is enumerated by TLC and replayed on both clients; after every step TLC compares Scan and Query "
               "through every index, and DescribeTable's per-index counts, with the index view DEFINED from the base table.",
)

# properties deliberately not claimed, with the reason (none so far: unbuilt ones get a work-in-progress reason)
NOT_CLAIMED = {}
