"""Per-property check definitions: which bounded models are enumerated at each tier, and which named
parts of the judge's acceptance condition state the property (DESIGN.md 4.3 "one property, one verdict")."""
import re


def G(model, **kw):
    d = dict(kind="G", model=model)
    d.update(kw)
    return d


# parts are "<r1|r2|o1|o2>.<Name>" or "Sdk.Equal"
def H(n, length=40):
    return dict(kind="R", gen="history", n=n, len=length)


def T(model, **kw):
    d = dict(kind="T", model=model)
    d.update(kw)
    return d


def L(model, **kw):
    d = dict(kind="L", model=model)
    d.update(kw)
    return d


def labparts(*names):
    return re.compile(r"^(lang|v1|v2|scan)\.(%s)$" % "|".join(names))


def parts(*names):
    return re.compile(r"^(r1|r2|o1|o2)\.(%s)$" % "|".join(names))


SDK = re.compile(r"^Sdk\.Equal$")

PROPS = {
    "C01": dict(
        title="single-item operations behave as a key->item map",
        quick=[G("M_C01a"), T("M_NUMKEY"), T("M_HKEYS", observe="last"), T("M_UPSERT"), H(30)],
        thorough=[G("M_C01a"), G("M_C01b"), T("M_NUMKEY"), T("M_HKEYS", observe="last"), T("M_UPSERT"), H(600, 60)],
        own=[parts("Outcome", "ErrClass", "Data", "Base", "Others", "Desc", "Catalog")],
        design_ref="DESIGN.md 6 C01",
        level_text="Every (state, operation) transition of a bounded key->item model (3 keys, Put/Update/Delete/Get menus incl. projections, the class of the la"
               "st operation part of the state) is enumerated by TLC, replayed on both real clients, and every answer plus the full post-state (GetItem of e"
               "very key, Scan, DescribeTable) is judged by TLC against the specification; exhaustive within the bounds. Added: number / binary typed keys, "
               "pools of keys over hostile bytes, upserts whose expressions read the key attributes, seeded random histories.",
    ),
}
PROPS["C03"] = dict(
    title="secondary indexes always mirror the base table",
    # preobs: the state is also observed BEFORE the operation of each trace (read through the indexes, write, read again)
    quick=[G("M_IDX"), G("M_IDX", cfg="M_IDX_ill"), G("M_TIDX", preobs=True), T("M_DOTQ"), H(30)],
    thorough=[G("M_IDX", cfg="M_IDX_t", preobs=True), G("M_IDX", cfg="M_IDX_ill"), G("M_TIDX", cfg="M_TIDX_t", preobs=True), T("M_DOTQ"), H(600, 60)],
    own=[parts("Index", "IdxCount", "IdxDesc")],
    design_ref="DESIGN.md 6 C03",
    level_text="Every history of put / overwrite / update / delete / clear / create-index / delete-index over a bounded table with two "
               "global secondary indexes is enumerated by TLC and replayed on both clients; after every step TLC compares Scan and Query "
               "through every index, and DescribeTable's per-index counts, with the index view DEFINED from the base table."
               " Also: typed index sort keys (N, B) with the state observed before and after each write, items not eligible for an index (ill-typed key attribute) created before / refused after the index, index keys that extend one another across separator-like bytes; every observation of an index ends with the read it began with.",
)
PROPS["C05"] = dict(
    title="conditional writes are decided on the target item only, atomically",
    quick=[G("M_COND"), H(30)],
    thorough=[G("M_COND", cfg="M_COND_t"), H(600, 60)],
    # "atomically": racing conditional writes on one key, one winner per round (recorded histories, TLC linearizes them)
    conc_quick=[dict(scenario="condupdate", seeds=1, g=6, n=10), dict(scenario="condupdate", seeds=2, g=8, n=25, race=False),
                dict(scenario="putonce", seeds=1, g=6, n=4)],
    conc_thorough=[dict(scenario="condupdate", seeds=5, g=6, n=10), dict(scenario="condupdate", seeds=10, g=8, n=40, race=False),
                   dict(scenario="putonce", seeds=5, g=8, n=6)],
    own=[parts("Outcome", "ErrClass", "CcfItem", "Base", "Index", "IdxCount", "Data")],
    design_ref="DESIGN.md 6 C05",
    level_text="Conditional Put / Update / Delete for every condition of a 6-entry menu in every state of a bounded table (target present "
               "or absent, bystanders satisfying or not satisfying the condition) are enumerated by TLC and replayed on both clients; TLC "
               "judges success / ConditionalCheckFailed against the condition evaluated on the target item only, the carried item, and - after "
               "every refused write - that the full observation of table and index is unchanged.",
)
PROPS["C08"] = dict(
    title="a request that fails leaves no trace",
    quick=[G("M_FAIL"), G("M_FAIL2"), G("M_IDX", cfg="M_IDX_ill"), T("M_UPSERT"), H(30)],
    thorough=[G("M_FAIL", cfg="M_FAIL_t"), G("M_FAIL2"), G("M_IDX", cfg="M_IDX_ill"), T("M_UPSERT"), H(600, 60)],
    own=[parts("Base", "Index", "IdxCount", "IdxDesc", "Desc", "Catalog")],
    when=lambda f: f["oc"] != "ok",      # C08 speaks about calls that fail; a wrongly accepted request belongs to C07/C13/C16
    level="fault_enumeration",
    design_ref="DESIGN.md 6 C08",
    level_text="Every class of failing request (validation, key and index-key type mismatch, ill-typed update, malformed condition, unknown "
               "table, unused placeholders, refused condition, batch with an invalid request) is issued in every state of a bounded table with "
               "a typed secondary index; TLC requires each to fail and the complete observation (GetItem of every key, Scan, every index, "
               "DescribeTable) after it to be that of the unchanged specification state."
               " Also: batches whose last request is invalid, a later action of a multi-action update failing on a table without indexes, items older than an index, DeleteItem with a ReturnValues the operation does not have; a call that both clients refuse although the specification expected success is judged against the unchanged state.",
)
PROPS["C02"] = dict(
    title="Query and Scan return exactly the matching items, in sort-key order",
    quick=[G("M_READ"), T("M_DOTQ"), T("M_KCSEQ"), G("M_TIDX"), G("M_IDX", cfg="M_IDX_ill"), H(30)],
    thorough=[G("M_READ", cfg="M_READ_t"), T("M_DOTQ"), G("M_IDX", cfg="M_IDX_t"), G("M_TIDX", cfg="M_TIDX_t"), H(600, 60)],
    own=[parts("Outcome", "Data", "NoCrash"), parts("Index")],
    when=lambda f: f["op"] in ("Query", "Scan", "Walk") or any(p.endswith(".Index") for p in f["parts"]),   # reads, and reads through indexes in observations
    design_ref="DESIGN.md 6 C02",
    level_text="Every Query / Scan of a menu (partition x sort-key condition {=,<,<=,>,>=,BETWEEN,begins_with} x filter x direction x "
               "base table / two global secondary indexes) is issued in every reachable content of a bounded hash+range table on both clients; "
               "TLC judges each response against the declarative result: the matching set exactly once, ordered by the index's sort key, Count = |Items|."
               " Also: partitions whose names extend one another across six separator-like bytes (table and indexes), typed index sort keys, reads with a ProjectionExpression, one key-condition text under several meanings, empty start keys.",
)
PROPS["C04"] = dict(
    title="paginating with any Limit equals one unpaginated read",
    quick=[G("M_READ", cfg="M_WALK"), T("M_DOTQ"), H(30)],
    thorough=[G("M_READ", cfg="M_WALK_t"), T("M_DOTQ"), H(600, 60)],
    own=[parts("Outcome", "Data", "NoCrash")],
    when=lambda f: f["op"] == "Walk",
    design_ref="DESIGN.md 6 C04",
    level_text="For every reachable content of a bounded table with two indexes, every walk of a menu of Query / Scan shapes with Limit 1..3 is "
               "performed on both clients - plain, and with the item named by the first LastEvaluatedKey deleted before the next page; TLC "
               "checks page sizes, that a missing LastEvaluatedKey coincides with completion, finiteness, and that the concatenated pages equal "
               "the client's own unpaginated answer (minus the deleted item), which itself is judged against the specification.",
)
PROPS["C18"] = dict(
    title="table lifecycle and metadata stay coherent",
    quick=[G("M_LIFE", cfg="M_LIFE_a"), G("M_LIFE", cfg="M_LIFE_b"), H(30)],
    thorough=[G("M_LIFE", cfg="M_LIFE_t"), H(600, 60)],
    # a table name is created once, also when several callers create it at the same moment
    conc_quick=[dict(scenario="createrace", seeds=3, g=8, n=30, race=False), dict(scenario="lifecycle", seeds=2, g=5, n=8)],
    conc_thorough=[dict(scenario="createrace", seeds=20, g=8, n=40, race=False), dict(scenario="batchrace", seeds=5, g=6, n=6, lin=False),
              dict(scenario="batchrace", seeds=5, g=8, n=10, race=False, lin=False), dict(scenario="lifecycle", seeds=20, g=6, n=12)],
    own=[parts("Outcome", "ErrClass", "Data", "Base", "Index", "IdxCount", "IdxDesc", "Desc", "Catalog", "NoCrash")],
    design_ref="DESIGN.md 6 C18",
    level_text="Every interleaving of create (helper and full CreateTable, valid and invalid configurations, both billing modes, global and "
               "local indexes), delete, clear, add/delete index, describe and data writes/reads over two clients and two table names is "
               "enumerated by TLC within the bounds and replayed; TLC judges error classes (ResourceInUse / ResourceNotFound), descriptions, "
               "and after every step the full observation of every table of BOTH clients, which is how table and client isolation, "
               "clearing and re-creation are decided.",
)
PROPS["C15"] = dict(
    title="emulated failures fail every data call, change nothing, are reversible",
    quick=[G("M_MODE"), H(20)],
    thorough=[G("M_MODE", cfg="M_MODE_t"), H(300, 60)],
    own=[parts("Outcome", "ErrClass", "Data", "Base", "Desc", "Catalog")],
    level="fault_enumeration",
    design_ref="DESIGN.md 6 C15",
    level_text="Every kind of data operation (single-item, Query, Scan, batches of one and two requests, TransactWriteItems) is issued under "
               "every failure mode reachable by toggle sequences (none / internal-server / deprecated force-failure, deactivation) in every "
               "state of a bounded table; TLC requires the configured error class, unprocessed = all requests for a batch write under "
               "internal-server failure, and an unchanged full observation after every failing call and after deactivation.",
)
PROPS["C19"] = dict(
    title="batch operations equal their item-by-item decomposition",
    quick=[G("M_BATCH"), G("M_BATCH", cfg="M_BGET"), H(20)],
    thorough=[G("M_BATCH", cfg="M_BATCH_t"), G("M_BATCH", cfg="M_BGET"), H(300, 60)],
    own=[parts("Outcome", "ErrClass", "Data", "Unprocessed", "Base", "Desc", "NoCrash")],
    design_ref="DESIGN.md 6 C19",
    level_text="Every BatchWriteItem of one or two requests over two tables (puts, deletes, repeated tables, absent keys) and BatchGetItem of "
               "present and absent keys is issued in every reachable state; the specification defines the batch as the fold of the single "
               "operations, TLC checks on the specification that request order on distinct keys is irrelevant, and judges responses and "
               "the full post-state of both tables on both clients.",
)
PROPS["C17"] = dict(
    title="the SDK v1 and SDK v2 clients are behaviourally equivalent",
    quick=[G("M_MODE"), G("M_LIFE", cfg="M_LIFE_b"), G("M_TIDX"), G("M_BATCH", cfg="M_BGET"), G("M_NATIVE", cfg="M_NATIVE_pre"), G("M_KC"), T("M_DOTQ"), H(30)],
    thorough=[G("M_MODE", cfg="M_MODE_t"), G("M_LIFE", cfg="M_LIFE_t"), G("M_IDX", cfg="M_IDX_t"), G("M_BATCH", cfg="M_BGET"),
              G("M_C01a"), G("M_COND"), G("M_FAIL"), G("M_READ"), G("M_READ", cfg="M_WALK"), G("M_KC"), T("M_DOTQ"), H(400, 60)],
    own=[SDK],
    design_ref="DESIGN.md 6 C17",
    level_text="The same operation sequences - every transition of the lifecycle, failure-mode, index and batch models (thorough: of all "
               "models) - are issued through the aws-sdk-go client and the aws-sdk-go-v2 client; at every step TLC compares the two normalised "
               "answers (error class, items in order, counts, pagination keys, descriptions, unprocessed sets) in addition to judging each "
               "against the specification.",
)
PROPS["C06"] = dict(
    title="condition, filter and key expressions evaluate per DynamoDB semantics",
    quick=[L("M_EXPR")],
    thorough=[L("M_EXPR", cfg="M_EXPR_t")],
    own=[labparts("Outcome", "Modified", "NoCrash")],
    design_ref="DESIGN.md 6 C06",
    level_text="TLC enumerates condition expressions - every atom shape (six comparators, BETWEEN, IN, attribute_exists / _not_exists / "
               "_type, begins_with, contains, size, nested paths, name placeholders) under every typing of its operands (each of the ten "
               "types, two of the ordered ones, or absent) plus AND / OR / NOT structures that expose precedence - and the harness evaluates "
               "each through interpreter.Language, conditional PutItem on both clients and a Scan filter; TLC recomputes the truth value "
               "with CondOut (Expr.tla) and checks that evaluation left the item unchanged.",
)
PROPS["C07"] = dict(
    title="update expressions apply exactly their actions and nothing else",
    quick=[L("M_UPD")],
    thorough=[L("M_UPD")],
    own=[labparts("Outcome", "Result", "Modified", "NoCrash")],
    design_ref="DESIGN.md 6 C07",
    level_text="TLC enumerates update expressions - SET with values, paths, + and -, if_not_exists, list_append, nested and indexed targets; "
               "REMOVE of attributes, map members and list elements; ADD; DELETE; several clauses together; right-hand sides that read targets "
               "of other actions - under every typing of the targeted attribute, on items that also carry bystander attributes of seven "
               "types; the harness applies each through interpreter.Language and UpdateItem+GetItem on both clients and TLC compares the WHOLE "
               "resulting item with ApplyU (Expr.tla), or requires an error and an unchanged item.",
)
PROPS["C09"] = dict(
    title="the expression front end is total and strict",
    quick=[L("M_TOK", cfg="M_TOK_cond"), L("M_TOK", cfg="M_TOK_upd"), L("M_SENT", cfg="M_SENT_cond"), L("M_SENT", cfg="M_SENT_upd"),
           G("M_KC"), dict(kind="R", gen="strings", n=3000, maxlen=600)],
    thorough=[L("M_TOK", cfg="M_TOK_cond_t"), L("M_TOK", cfg="M_TOK_upd_t"), L("M_SENT", cfg="M_SENT_cond"), L("M_SENT", cfg="M_SENT_upd"),
              G("M_KC"), dict(kind="R", gen="strings", n=6000, maxlen=2048)],
    own=[labparts("NoCrash", "Accepted", "Placeholders", "Reserved", "Outcome", "Result", "Modified"), parts("NoCrash")],
    design_ref="DESIGN.md 6 C09",
    level_text="TLC spells every string of up to 3 tokens and 5 000 (thorough 40 000) seeded samples each of 4, 5 and 6 tokens over a 20-token condition alp"
               "habet and a 17-token update alphabet, and every single-token edit (delete, duplicate, swap, replace, insert) and every pair of parentheses a"
               "round a span of 23 well-formed sentences; key-condition shapes go through Query; seeded random byte strings, token soups, alien bytes and pa"
               "thological strings up to 4 KB are added. Each case runs through interpreter.Language and both client APIs in crash-proof child processes; TL"
               "C lexes and parses the BYTES with Grammar.tla: a sentence must evaluate as Expr.tla says, a non-sentence must be rejected (error or the docu"
               "mented panic), and nothing may crash, hang or succeed silently (strings beyond 700 bytes: totality only).",
)
PROPS["C16"] = dict(
    title="DynamoDB usage restrictions are detected",
    quick=[L("M_RES"), L("M_PH"), G("M_KC"), T("M_KCSEQ")],
    thorough=[L("M_RES", cfg="M_RES_t"), L("M_PH"), G("M_KC"), T("M_KCSEQ")],
    own=[labparts("Reserved", "Placeholders", "Outcome", "Accepted", "NoCrash"), parts("Outcome", "NoCrash")],
    design_ref="DESIGN.md 6 C16",
    level_text="All 573 reserved words (frozen list), in upper and lower case, in 4 (thorough: 12) bare-name positions of conditions and updates; "
               "every subset of placeholder families whose spellings are prefixes of one another against what the expression uses; 10 valid and "
               "17 invalid key-condition shapes on base table and index; BatchWriteItem of 0..27 requests and neither/both requests. TLC decides "
               "from the bytes / the request which must be rejected and which must not, and judges the answers of interpreter and both clients."
               " Also: reserved words at the head of a document path and behind a decided OR / AND, malformed placeholder keys, key conditions on an index without sort key, wrong operand counts, one key-condition text under several meanings, requests with two faults, the 25-request limit over two tables.",
)
PROPS["C13"] = dict(
    title="primary keys identify items faithfully and are enforced",
    quick=[G("M_KEYS", cfg="M_KEYS_S"), T("M_NUMKEY"), T("M_HKEYS", observe="last"), T("M_UPSERT"), H(20)],
    thorough=[G("M_KEYS", cfg="M_KEYS_S_t"), G("M_KEYS", cfg="M_KEYS_B"), T("M_NUMKEY"), T("M_HKEYS", observe="last"), T("M_UPSERT"), H(300, 60)],
    own=[parts("Outcome", "ErrClass", "Data", "Base", "Others", "Desc", "NoCrash")],
    design_ref="DESIGN.md 6 C13",
    level_text="Hash+range keys (string and binary) over byte alphabets built to collide under separator-joined encodings, stored at most 2 "
               "(thorough: 3) at a time, every key written with an attribute naming it; Put / Get / Update / Delete(ALL_OLD) / Scan in every "
               "reachable state plus malformed keys on all four operations and updates naming a key attribute; TLC judges identity (the "
               "specification keys items by their key VALUES), rejection of malformed keys and key immutability from answers and full post-states."
               " Also: number / binary typed keys, pools of binary, string and hash+range keys over hostile bytes (NUL, nibble boundaries, separator, escape), conditional upserts, a key rewrite onto another stored key (every other item must survive a write that went through unexpectedly).",
)
PROPS["C10"] = dict(
    title="attribute values survive a write/read round trip unchanged",
    quick=[T("M_VALS", cfg="M_VALS_1")],
    thorough=[T("M_VALS", cfg="M_VALS_2")],
    own=[parts("Outcome", "Data", "Base", "NoCrash"), SDK],
    design_ref="DESIGN.md 6 C10",
    level_text="TLC enumerates the value universe up to depth 1 (thorough: 2) with every boundary member - empty string / binary / list / map, "
               "false, NULL, single-element sets, nested empties, numerals in a dozen notations (-0, trailing zeros, exponent forms, 38 digits, "
               "the exponent limits); each is written with PutItem and read back through GetItem, Scan, Query and BatchGetItem on both clients; "
               "TLC compares what comes back with SameValue (sets as sets, numbers by exact decimal value).",
)
PROPS["C12"] = dict(
    title="numbers behave as exact decimals, not floats or strings",
    quick=[L("M_NUM"), T("M_NUMKEY")],
    thorough=[L("M_NUM"), T("M_NUMKEY")],
    own=[labparts("Outcome", "Result", "Modified", "NoCrash"), parts("Outcome", "Data", "Base", "NoCrash")],
    design_ref="DESIGN.md 6 C12",
    level_text="17 numerals from a spelling table (canonical, leading / trailing zeros, exponent forms, -0, 2^53 and 2^53+1, 0.1/0.2/0.3, 9 vs 10, "
               "38 digits), pairwise, in every position a number takes in an expression (six comparators, BETWEEN, IN, contains on number sets, "
               "SET +/-, ADD, number-set ADD/DELETE) plus updates of an unrelated attribute on items holding them; number-typed and binary-typed "
               "keys (1 vs 1.0 as one key; sort order 9 < 10, [9] < [9,1] < [10]).  TLC judges with exact decimal arithmetic on digit sequences "
               "(Decimal.tla).",
)
PROPS["C14"] = dict(
    title="stored data is isolated from caller-owned memory",
    quick=[T("M_ALIAS", cfg="M_ALIAS_1")],
    thorough=[T("M_ALIAS", cfg="M_ALIAS_2")],
    own=[parts("Alias", "Outcome", "Data", "Base", "NoCrash")],
    level="exploration",
    design_ref="DESIGN.md 6 C14",
    level_text="For every value shape of a universe up to depth 1 (thorough: 2) and each of 12 ways memory crosses the API boundary (request "
               "structures of PutItem / UpdateItem / BatchWriteItem, response structures of GetItem / Scan / Query / UpdateItem / DeleteItem, the item "
               "of a ConditionalCheckFailed error, results held across a later write, the Query input struct) the harness overwrites every mutable "
               "location of the caller's structures after the call returned and re-reads; TLC judges the re-read against the specification, in "
               "which caller writes are stuttering steps.  Aliasing itself is below the level of a TLA+ state machine (DESIGN.md 7): the "
               "specification supplies the rule, the shapes and the verdict; the locations are walked by the harness.",
)
PROPS["C20"] = dict(
    title="native-interpreter overrides are dispatched exactly and fall back safely",
    quick=[G("M_NATIVE"), G("M_NATIVE", cfg="M_NATIVE_pre"), G("M_NATIVE", cfg="M_NATIVE_swap"), dict(kind="R", gen="native-history", n=60, len=30)],
    thorough=[G("M_NATIVE"), G("M_NATIVE", cfg="M_NATIVE_pre"), G("M_NATIVE", cfg="M_NATIVE_swap"), dict(kind="R", gen="native-history", n=1500, len=40)],
    own=[parts("Outcome", "ErrClass", "Data", "Base", "CrossFire", "NotDispatched", "NoCrash")],
    design_ref="DESIGN.md 6 C20",
    level_text="Every subset of a registration menu (anagram pairs, the same text for another table and another expression kind, an updater) x "
               "requests whose texts vary in surrounding / repeated whitespace, are anagrams or different x native interpreter on / off is "
               "enumerated by TLC and replayed; callbacks are instrumented Go closures whose verdict is the opposite of the built-in interpreter's, "
               "so TLC judges from outcome, post-state and the recorded set of callbacks that ran: exact dispatch, no cross-fire, fallback for "
               "matchers, unsupported-feature error without change for updates."
               " Also: activation before the tables exist, SetInterpreter with another instance, texts that differ in tabs, line breaks and letter case, an updater that deletes an attribute.",
)
PROPS["C11"] = dict(
    title="the client is safe for concurrent use and its operations are atomic",
    engine="conc",
    quick=[dict(scenario="counter", seeds=2, g=6, n=6), dict(scenario="putonce", seeds=2, g=6, n=4), dict(scenario="mixed", seeds=3, g=5, n=8),
           dict(scenario="lifecycle", seeds=3, g=5, n=8), dict(scenario="createrace", seeds=2, g=6, n=8), dict(scenario="createrace", seeds=3, g=8, n=30, race=False),
           dict(scenario="batchrace", seeds=1, g=6, n=4, lin=False), dict(scenario="batchrace", seeds=1, g=8, n=8, race=False, lin=False),
           dict(scenario="cancel", seeds=1, g=2, n=1), dict(scenario="indexreads", seeds=2, g=5, n=6)],
    thorough=[dict(scenario="counter", seeds=10, g=8, n=10), dict(scenario="putonce", seeds=10, g=8, n=6), dict(scenario="mixed", seeds=40, g=6, n=12),
              dict(scenario="lifecycle", seeds=40, g=6, n=12), dict(scenario="createrace", seeds=20, g=8, n=8), dict(scenario="createrace", seeds=20, g=8, n=40, race=False), dict(scenario="batchrace", seeds=5, g=6, n=6, lin=False),
              dict(scenario="batchrace", seeds=5, g=8, n=10, race=False, lin=False),
              dict(scenario="indexreads", seeds=20, g=6, n=8)],
    own=[],
    design_ref="DESIGN.md 6 C11",
    level_text="Seeded concurrent histories of both real clients (N concurrent ADD 1; racing attribute_not_exists puts; a random mix of data operations and "
               "batches; data operations racing with table management, clearing and failure toggles; rounds of simultaneous CreateTable calls for one name a"
               "nd of simultaneous batches behind a spin barrier; simultaneous reads through secondary indexes beside a writer; a write whose context is can"
               "celled while the client is busy) are recorded with and without the Go race detector, with invocation / return stamps; TLC searches for a lin"
               "earization of each history against MiniDyn.tla (violation of the invariant = witness). A data race report, a Go fatal error, a call whose go"
               "routine is blocked for good, or a history TLC exhausts without witness is a violation. Schedules are sampled by the Go scheduler, not enumer"
               "ated (DESIGN.md 7).",
    technique="TLA+ specification + TLC linearizability search over recorded concurrent histories of the real clients (TraceLin.tla), Go race detector as monitor",
)

# properties deliberately not claimed, with the reason (none so far: unbuilt ones get a work-in-progress reason)
NOT_CLAIMED = {}
