"""Seeded random and pathological expression strings for C09 (totality): the strings are only SPELLED here; whether one is a
sentence and what it evaluates to is decided by TLC (Grammar.tla / Expr.tla) from the bytes."""
import json
import random

ITEM = {"a": {"t": "S", "s": [120]}, "b": {"t": "N", "n": {"neg": False, "d": [1], "e": 0}},
        "l": {"t": "L", "l": [{"t": "S", "s": [120]}]}, "m": {"t": "M", "m": {"a": {"t": "S", "s": [120]}}}}
COND_TOKENS = ["a", "b", "l", "m", "zz", "#n", ":v", ":w", "=", "<>", "<", "<=", ">", ">=", "(", ")", ",", "AND", "OR", "NOT", "BETWEEN", "IN",
               "and", "Or", "attribute_exists", "attribute_not_exists", "attribute_type", "begins_with", "contains", "size", ".", "[0]", "[1]",
               "[", "]", "$", "1", "12a", "##", "::", "#", ":", "-", "+", "SET"]
UPD_TOKENS = ["SET", "REMOVE", "ADD", "DELETE", "set", "a", "b", "l", "m", "zz", "#n", ":v", ":w", "=", "+", "-", ",", "(", ")", "if_not_exists",
              "list_append", ".", "[0]", "[7]", "[", "]", "$", "AND", "size"]


def case(kind, text, strict):
    t = text if isinstance(text, bytes) else text.encode("latin1")
    names = {"#n": "a"} if b"#n" in t else {}
    values = {}
    if b":v" in t:
        values[":v"] = {"t": "S", "s": [120]} if kind == "cond" else {"t": "N", "n": {"neg": False, "d": [2], "e": 0}}
    if b":w" in t:
        values[":w"] = {"t": "N", "n": {"neg": False, "d": [1], "e": 0}}
    return {"op": "MatchText" if kind == "cond" else "ApplyText", "text": list(t), "item": ITEM, "names": names, "values": values, "strict": strict}


def pathological(maxlen):
    out = []
    for kind in ("cond", "upd"):
        pre = "" if kind == "cond" else "SET a = "
        for s in ["(" * 4000, ")" * 4000, "NOT " * 1000, "NOT " * 1000 + "a = :v", "a" + ".a" * 1500, "a" + "[0]" * 1300, "1" * 4000, "#" * 4000, ":" * 4000,
                  "a = :v" + " AND a = :v" * 300, "a = :v" + " OR a = :v" * 300, "(" * 800 + "a = :v" + ")" * 800, "a IN (" + ", ".join([":v"] * 600) + ")",
                  "a" * 4000 + " = :v", "a = :v " * 500, " " * 4000, "\t\n\r " * 900, "a <", "a =", "= a", "NOT", "a BETWEEN", "a BETWEEN :v", "a BETWEEN :v AND",
                  "attribute_exists", "attribute_exists(", "attribute_exists(a", "attribute_exists(a,", "size(", "size()", "a.", "a[", "a[0", "a[]", "a[x]", "a[-1]",
                  "a[99999999999999999999]", "\x00", "a\x00= :v", "a = :v\x00", "\xff\xfe", "é = :v".encode("utf8").decode("latin1"), "a = :v;", "a == :v", "a != :v",
                  "a = 'x'", 'a = "x"', "a = 1", "a = :v -- c", "SET a = :v", "REMOVE a", "SET", "SET a", "SET a =", "SET a = :v,", "SET a = :v SET b = :v",
                  "SET a = :v + :w + :w", "SET a = if_not_exists(", "SET a = if_not_exists(a", "SET a = list_append(:v", "ADD", "ADD a", "DELETE a", "REMOVE",
                  "REMOVE a,", "REMOVE ,", "SET a = :v REMOVE", "SET " + ", ".join("a%d = :v" % i for i in range(400)), "REMOVE " + ", ".join(["zz"] * 900)]:
            out.append(case(kind, s[:maxlen], False))
            if s and not s.startswith(("SET", "REMOVE", "ADD", "DELETE")):
                out.append(case(kind, (pre + s)[:maxlen], False))
    return out


ALLOWED = set(b"ABCDEFGHIJKLMNOPQRSTUVWXYZabcdefghijklmnopqrstuvwxyz0123456789_#:.,()[]<>=+- \t\n\r")


def alien_bytes():
    """every byte no token contains, placed inside otherwise valid sentences (between tokens, inside a name, at the ends)"""
    out = []
    for b in range(256):
        if b in ALLOWED:
            continue
        c = bytes([b])
        for kind, parts in (("cond", [b"a" + c + b"= :v", b"a = :v" + c, c + b"a = :v", b"a = :v" + c + b"AND attribute_exists(b)"]),
                            ("upd", [b"SET" + c + b"a = :v", b"SET a" + c + b"= :v", b"SET a = :v" + c])):
            for p in parts:
                out.append(case(kind, p, True))
    return out


def generate(n, seed, maxlen=4096):
    rnd = random.Random(seed)
    out = pathological(maxlen) + alien_bytes()
    while len(out) < n:
        r = rnd.random()
        kind = "cond" if rnd.random() < 0.6 else "upd"
        toks = COND_TOKENS if kind == "cond" else UPD_TOKENS
        if r < 0.25:      # raw bytes
            b = bytes(rnd.randrange(256) for _ in range(rnd.randrange(0, 40)))
            out.append(case(kind, b, False))
        elif r < 0.45:    # printable soup
            b = "".join(rnd.choice(" aAbz#:_09=<>(),.[]+-$\"'") for _ in range(rnd.randrange(0, 60)))
            out.append(case(kind, b, False))
        else:             # token soup: spelled from known tokens, so the grammar is authoritative (strict)
            k = rnd.randrange(1, 14)
            ts = [rnd.choice(toks) for _ in range(k)]
            sep = rnd.choice([" ", " ", "  ", "\t", ""]) if rnd.random() < 0.3 else " "
            text = sep.join(ts)
            strict = sep != "" and not any(t in ("1", "12a", "##", "::", "#", ":", "[", "]") for t in ts)
            out.append(case(kind, text, strict))
    return out[:max(n, len(pathological(maxlen)) + len(alien_bytes()))]


def write(path, n, seed, maxlen=4096):
    cases = generate(n, seed, maxlen)
    with open(path, "w") as f:
        for c in cases:
            f.write(json.dumps(c) + "\n")
    return len(cases)
