"""Channel G / R plumbing shared by every check: build the harness from /repo's working tree, run TLC
generators, replay on the real clients, run the TLC trace judge in parallel chunks, collect verdicts."""
import concurrent.futures as cf
import hashlib
import json
import os
import re
import shutil
import subprocess
import tempfile
import time

VERIF = os.path.dirname(os.path.dirname(os.path.abspath(__file__)))
REPO = os.environ.get("VERIF_REPO", "/repo")      # default: the repository itself; overridden only by bin/mutants (scratch worktrees)
OUT = os.environ.get("VERIF_OUT", VERIF)           # where evidence/ and replay/ are written (default /verif)
SPEC = os.path.join(VERIF, "spec")
MODELS = os.path.join(VERIF, "models")
BUILD = os.path.join(VERIF, ".build") if REPO == "/repo" else tempfile.mkdtemp(prefix="verif-build-")
JAVA_CP = "/opt/veriftools/tla/tla2tools.jar:/opt/veriftools/tla/CommunityModules-deps.jar"
NCPU = os.cpu_count() or 4
NJUDGE = max(1, min(8, NCPU // 2))

GOENV = dict(os.environ, GOFLAGS="-mod=mod", GOPROXY="off", GOSUMDB="off", GOTOOLCHAIN="local",
             GOCACHE=os.environ.get("GOCACHE", os.path.expanduser("~/.cache/go-build")))


class Inconclusive(Exception):
    """Machinery failure (build error, TLC error, time-out): exit 2, never a violation."""


def build_harness():
    os.makedirs(BUILD, exist_ok=True)
    hdir = os.path.join(VERIF, "harness")
    if REPO != "/repo":       # private copy of the harness module whose replace directive points at the scratch worktree
        hcopy = os.path.join(BUILD, "harness-src")
        shutil.rmtree(hcopy, ignore_errors=True)
        shutil.copytree(hdir, hcopy)
        gm = open(os.path.join(hcopy, "go.mod")).read().replace("=> /repo", "=> " + REPO)
        open(os.path.join(hcopy, "go.mod"), "w").write(gm)
        hdir = hcopy
    shutil.copyfile(os.path.join(REPO, "go.sum"), os.path.join(hdir, "go.sum"))
    for cmd in sorted(os.listdir(os.path.join(hdir, "cmd"))):
        p = subprocess.run(["go", "build", "-tags", "verif", "-o", os.path.join(BUILD, cmd), "./cmd/" + cmd],
                           cwd=hdir, env=GOENV, capture_output=True, text=True)
        if p.returncode != 0:
            raise Inconclusive("harness build failed (does /repo still compile?):\n" + p.stdout + p.stderr)


def build_race():
    """The concurrency recorder built with the Go race detector (C11)."""
    hdir = os.path.join(BUILD, "harness-src") if REPO != "/repo" else os.path.join(VERIF, "harness")
    env = dict(GOENV, CGO_ENABLED="1")
    p = subprocess.run(["go", "build", "-race", "-tags", "verif", "-o", os.path.join(BUILD, "conc-race"), "./cmd/conc"], cwd=hdir, env=env,
                       capture_output=True, text=True)
    if p.returncode != 0:
        raise Inconclusive("race build failed:\n" + p.stdout + p.stderr)


LIN_CFG = "SPECIFICATION LSpec\nINVARIANT NotLinearized\nCHECK_DEADLOCK FALSE\n"


def record_history(sdk, scenario, seed, g, n, workdir, race=True):
    out = os.path.join(workdir, "hist-%s-%s-%d%s.ndjson" % (sdk, scenario, seed, "" if race else "-norace"))
    env = dict(os.environ, GORACE="exitcode=0 halt_on_error=0")
    try:
        p = subprocess.run([os.path.join(BUILD, "conc-race" if race else "conc"), "-sdk", sdk, "-scenario", scenario, "-seed", str(seed), "-g", str(g),
                            "-n", str(n), "-out", out], capture_output=True, text=True, timeout=900, env=env)
    except subprocess.TimeoutExpired:
        # a call of the real client that blocks for good is detected INSIDE the recorder (goroutine state) and ends the run normally;
        # a recorder that is still running after 15 minutes says something about the machine, not about minidyn
        raise Inconclusive("the concurrency recorder (%s %s seed %d) did not finish within 900 s" % (sdk, scenario, seed))
    races = p.stderr.count("WARNING: DATA RACE")
    if p.returncode != 0 or not os.path.exists(out):
        return dict(path=None, outcome="crash", races=races, stderr=p.stderr[-3000:])
    return dict(path=out, outcome="ok", races=races, stderr=p.stderr[:6000] if races else "")


def linearize(hist_path, sdk, timeout=600):
    """TLC searches a linearization of one history; returns dict(linearizable, states)."""
    wd = hist_path + ".lin"
    os.makedirs(wd, exist_ok=True)
    stage_spec(wd)
    src = open(os.path.join(wd, "TraceLin.tla")).read().replace("Sdk == 2", "Sdk == %d" % (1 if sdk == "v1" else 2))
    open(os.path.join(wd, "TraceLin.tla"), "w").write(src)
    shutil.copyfile(hist_path, os.path.join(wd, "hist.ndjson"))
    open(os.path.join(wd, "TraceLin.cfg"), "w").write(LIN_CFG)
    rc, out = tlc(wd, "TraceLin", "TraceLin.cfg", workers=1, timeout=timeout, xmx="3g", deque=True, light=True)
    gen, _ = tlc_stats(out)
    shutil.rmtree(wd, ignore_errors=True)
    if "Invariant NotLinearized is violated" in out:
        return dict(linearizable=True, states=gen)
    if "Model checking completed. No error has been found." in out:
        return dict(linearizable=False, states=gen)
    raise Inconclusive("linearizability search failed on %s:\n%s" % (hist_path, "\n".join(out.splitlines()[-25:])))


def scratch(tag):
    return tempfile.mkdtemp(prefix="verif-%s-" % tag)


def tlc(workdir, module, cfg, workers=1, timeout=1800, xmx="4g", extra=(), deque=False, light=False):
    """Run TLC in workdir; returns (rc, output). light = many short runs in parallel (measured: serial GC and
    the C1 compiler only, at most 8 JVMs at a time, is fastest in this sandbox)."""
    if light:
        cmd = ["java", "-XX:+UseSerialGC", "-XX:TieredStopAtLevel=1", "-Xmx" + xmx, "-Xss512m"]
    else:
        cmd = ["java", "-XX:+UseParallelGC", "-XX:ParallelGCThreads=4", "-Xmx" + xmx, "-Xss512m"]
    # TLC leaves a tlc-<n> directory in java.io.tmpdir per run: keep them inside the scratch directory that is removed afterwards
    jtmp = os.path.join(workdir, "jtmp")
    os.makedirs(jtmp, exist_ok=True)
    cmd.append("-Djava.io.tmpdir=" + jtmp)
    if deque:
        cmd.append("-Dtlc2.tool.queue.IStateQueue=StateDeque")
    # -seed: TLC's RandomSubset (sampled case sets of M_TOK) must be reproducible; VERIF_SEED varies it
    cmd += ["-cp", JAVA_CP, "tlc2.TLC", "-workers", str(workers), "-metadir", os.path.join(workdir, "md-" + module),
            "-seed", str(1000 + int(os.environ.get("VERIF_SEED", "0") or 0)), "-config", cfg] + list(extra) + [module + ".tla"]
    try:
        p = subprocess.run(cmd, cwd=workdir, capture_output=True, text=True, timeout=timeout)
    except subprocess.TimeoutExpired:
        raise Inconclusive("TLC timed out after %ds on %s/%s" % (timeout, module, cfg))
    return p.returncode, p.stdout + p.stderr


def stage_spec(workdir):
    for f in os.listdir(SPEC):
        if f.endswith(".tla"):
            shutil.copyfile(os.path.join(SPEC, f), os.path.join(workdir, f))


STATS_RE = re.compile(r"(\d+) states generated, (\d+) distinct states found")


def tlc_stats(out):
    m = None
    for m in STATS_RE.finditer(out):
        pass
    if not m:
        return 0, 0
    return int(m.group(1)), int(m.group(2))


def run_generator(model, workdir, timeout=1800, workers=8, cfg=None):
    """TLC enumerates a bounded model; returns (edges_path, stats)."""
    stage_spec(workdir)
    cfg = cfg or model
    shutil.copyfile(os.path.join(MODELS, cfg + ".cfg"), os.path.join(workdir, cfg + ".cfg"))
    t0 = time.time()
    rc, out = tlc(workdir, model, cfg + ".cfg", workers=workers, timeout=timeout, xmx="8g")
    if "Model checking completed. No error has been found." not in out:
        tail = "\n".join(l for l in out.splitlines() if not l.startswith('"{'))[-4000:]
        raise Inconclusive("generator %s did not complete cleanly (specification-level error):\n%s" % (model, tail))
    header = None
    edges_path = os.path.join(workdir, model + ".edges.ndjson")
    n = 0
    with open(edges_path + ".body", "w") as body:
        for line in out.splitlines():
            if not line.startswith('"{'):
                continue
            try:
                d = json.loads(json.loads(line))
            except Exception:
                raise Inconclusive("malformed generator line: " + line[:200])
            if d.get("kind") == "header":
                header = d
            elif d.get("kind") == "edge":
                body.write(json.dumps({"path": d["path"], "op": d["op"], "ro": d["ro"]}) + "\n")
                n += 1
    if header is None:
        raise Inconclusive("generator %s printed no header" % model)
    with open(edges_path, "w") as f:
        f.write(json.dumps({"setup": header["setup"], "menu": header["menu"]}) + "\n")
        with open(edges_path + ".body") as body:
            shutil.copyfileobj(body, f)
    os.remove(edges_path + ".body")
    gen, distinct = tlc_stats(out)
    return edges_path, dict(model=cfg, states=distinct, transitions=gen, edges=n, menu=len(header["menu"]),
                            gen_wall_s=round(time.time() - t0, 1)), header


def run_case_generator(model, workdir, cfg=None, timeout=1800):
    """TLC enumerates expression-lab cases (ASSUME PrintT per case); returns (cases_path, stats)."""
    stage_spec(workdir)
    cfg = cfg or model
    shutil.copyfile(os.path.join(MODELS, cfg + ".cfg"), os.path.join(workdir, cfg + ".cfg"))
    t0 = time.time()
    rc, out = tlc(workdir, model, cfg + ".cfg", workers=1, timeout=timeout, xmx="8g")
    if "Model checking completed. No error has been found." not in out:
        tail = "\n".join(l for l in out.splitlines() if not l.startswith('"{'))[-4000:]
        raise Inconclusive("case generator %s did not complete cleanly:\n%s" % (model, tail))
    path = os.path.join(workdir, cfg + ".cases.ndjson")
    n = 0
    declared = None
    with open(path, "w") as f:
        for line in out.splitlines():
            if not line.startswith('"{'):
                continue
            d = json.loads(json.loads(line))
            if d.get("kind") == "count":
                declared = d["n"]
                continue
            f.write(json.dumps(d) + "\n")
            n += 1
    if declared is not None and declared != n:
        raise Inconclusive("case generator %s: %d cases declared, %d printed" % (model, declared, n))
    return path, dict(model=cfg, cases=n, gen_wall_s=round(time.time() - t0, 1))


def run_trace_generator(model, workdir, cfg=None, chunks=8, timeout=1800, observe="all"):
    """TLC prints whole operation sequences (kind = "trace"); they are split into `chunks` ops files, replayed on the real
    clients (observation after every event) and returned as recorded trace files."""
    stage_spec(workdir)
    cfg = cfg or model
    shutil.copyfile(os.path.join(MODELS, cfg + ".cfg"), os.path.join(workdir, cfg + ".cfg"))
    t0 = time.time()
    rc, out = tlc(workdir, model, cfg + ".cfg", workers=1, timeout=timeout, xmx="8g")
    if "Model checking completed. No error has been found." not in out:
        tail = "\n".join(l for l in out.splitlines() if not l.startswith('"{'))[-4000:]
        raise Inconclusive("trace generator %s did not complete cleanly:\n%s" % (model, tail))
    traces = []
    for line in out.splitlines():
        if line.startswith('"{'):
            d = json.loads(json.loads(line))
            if d.get("kind") == "trace":
                traces.append(d["ops"])
    if not traces:
        raise Inconclusive("trace generator %s printed no traces" % model)
    return replay_traces(traces, workdir, chunks, observe), dict(model=cfg, traces=len(traces), events=sum(len(t) for t in traces),
                                                        gen_wall_s=round(time.time() - t0, 1))


def replay_traces(traces, workdir, chunks, observe="all"):
    paths, procs = [], []
    for i in range(chunks):
        part = traces[i::chunks]
        if not part:
            continue
        op = os.path.join(workdir, "ops.%d.ndjson" % i)
        tp = os.path.join(workdir, "tr.%d.ndjson" % i)
        with open(op, "w") as f:
            for t in part:
                f.write('{"op":"Reset"}\n')
                for o in t:
                    f.write(json.dumps(o) + "\n")
        procs.append((subprocess.Popen([os.path.join(BUILD, "replay"), "-ops", op, "-out", tp, "-observe", observe],
                                       stdout=subprocess.PIPE, stderr=subprocess.PIPE, text=True), tp))
    for pr, tp in procs:
        out, err = pr.communicate(timeout=3600)
        if pr.returncode != 0:
            raise Inconclusive("replay of generated traces failed: " + err[-2000:])
        paths.append(tp)
    return paths


def run_lab(cases_path, workdir, chunks):
    """Run the expression lab over the cases in parallel worker groups; returns trace chunk paths."""
    lines = open(cases_path).read().splitlines()
    paths = []
    procs = []
    for i in range(chunks):
        part = lines[i::chunks]
        if not part:
            continue
        cp = os.path.join(workdir, "cases.%d.ndjson" % i)
        tp = os.path.join(workdir, "lab.%d.ndjson" % i)
        with open(cp, "w") as f:
            f.write("\n".join(part) + "\n")
        procs.append((subprocess.Popen([os.path.join(BUILD, "exprlab"), "-cases", cp, "-out", tp], stdout=subprocess.PIPE,
                                       stderr=subprocess.PIPE, text=True), tp, len(part)))
    for pr, tp, n in procs:
        out, err = pr.communicate(timeout=3600)
        if pr.returncode != 0:
            raise Inconclusive("expression lab failed: " + err[-2000:])
        got = sum(1 for _ in open(tp))
        if got != n:
            raise Inconclusive("expression lab lost cases: %d of %d in %s" % (got, n, tp))
        paths.append(tp)
    return paths


def run_replay(edges_path, workdir, chunks, extra=()):
    prefix = os.path.join(workdir, "trace")
    stats = os.path.join(workdir, "replay-stats.json")
    p = subprocess.run([os.path.join(BUILD, "replay"), "-edges", edges_path, "-out", prefix, "-chunks", str(chunks),
                        "-stats", stats] + list(extra), capture_output=True, text=True, timeout=3600)
    if p.returncode != 0:
        raise Inconclusive("replay failed: " + p.stdout[-2000:] + p.stderr[-2000:])
    return [prefix + ".%d.ndjson" % i for i in range(chunks)], json.load(open(stats))


def run_ops(ops_path, workdir, name="ops", observe="all"):
    """Replay a plain list of operations (witness / replay file) and return the recorded trace path."""
    out = os.path.join(workdir, name + ".trace.ndjson")
    p = subprocess.run([os.path.join(BUILD, "replay"), "-ops", ops_path, "-out", out, "-observe", observe],
                       capture_output=True, text=True, timeout=600)
    if p.returncode != 0:
        raise Inconclusive("replay of %s failed: %s" % (ops_path, p.stdout[-2000:] + p.stderr[-2000:]))
    return out


JUDGE_CFG = "SPECIFICATION TraceSpec\nPOSTCONDITION Judged\nCHECK_DEADLOCK FALSE\nCONSTANT NameTable <- NameTableDef\n"
WORD_RE = re.compile(rb"[A-Za-z0-9_#:]+")


def write_name_table(trace_path, wd):
    """Grammar.tla turns the byte spelling of a name into the TLA+ string used in trees through a table; the table for a
    trace lists every word occurring in the expression texts of that trace (purely lexical, no interpretation)."""
    words = set()
    with open(trace_path, "rb") as f:
        for line in f:
            if b'"text"' not in line:
                continue
            try:
                d = json.loads(line)
            except Exception:
                continue
            t = d.get("text")
            if isinstance(t, list):
                words.update(w.decode() for w in WORD_RE.findall(bytes(t)))
    rows = ",\n  ".join('<< <<%s>>, "%s" >>' % (",".join(str(b) for b in w.encode()), w) for w in sorted(words))
    with open(os.path.join(wd, "Names.tla"), "w") as f:
        f.write("---- MODULE Names ----\nNameTableDef == <<\n  %s\n>>\n====\n" % rows)



def judge_one(trace_path, timeout=3600):
    """Run Trace.tla over one trace file. Returns dict(lines, consumed, fails=[...], states)."""
    nlines = sum(1 for _ in open(trace_path))
    if nlines == 0:
        return dict(lines=0, consumed=0, fails=[], states=0, trace=trace_path)
    wd = trace_path + ".judge"
    os.makedirs(wd, exist_ok=True)
    stage_spec(wd)
    write_name_table(trace_path, wd)
    os.symlink(trace_path, os.path.join(wd, "trace.ndjson"))
    with open(os.path.join(wd, "Trace.cfg"), "w") as f:
        f.write(JUDGE_CFG)
    rc, out = tlc(wd, "Trace", "Trace.cfg", workers=1, timeout=timeout, xmx="3g", light=True)
    verdict = None
    for line in out.splitlines():
        if line.startswith('"{'):
            try:
                d = json.loads(json.loads(line))
            except Exception:
                continue
            if d.get("kind") == "judge":
                verdict = d
    if verdict is None:
        tail = "\n".join(out.splitlines()[-40:])
        raise Inconclusive("trace judge produced no verdict for %s:\n%s" % (trace_path, tail))
    gen, _ = tlc_stats(out)
    shutil.rmtree(wd, ignore_errors=True)
    return dict(lines=nlines, consumed=verdict["hw"] - 1, fails=verdict["fails"], states=gen, trace=trace_path)


def judge_all(trace_paths):
    with cf.ThreadPoolExecutor(max_workers=NJUDGE) as ex:
        return list(ex.map(judge_one, trace_paths))


def extract_trace(trace_path, l):
    """Operations (without recorded answers) from the Reset before line l up to line l (1-based)."""
    ops = []
    with open(trace_path) as f:
        for i, line in enumerate(f, 1):
            d = json.loads(line)
            if d.get("op") == "Reset":
                ops = []
            else:
                ops.append(d)
            if i == l:
                break
    bare = [{k: v for k, v in d.items() if k not in ("r1", "r2", "o1", "o2", "r")} for d in ops]
    return bare, ops[-1] if ops else None


def save_replay(pid, bare_ops, info):
    os.makedirs(os.path.join(OUT, "replay"), exist_ok=True)
    body = "\n".join(json.dumps(o, sort_keys=True) for o in bare_ops) + "\n"
    hsh = hashlib.sha1(body.encode()).hexdigest()[:12]
    path = os.path.join(OUT, "replay", "%s-%s.ndjson" % (pid, hsh))
    with open(path, "w") as f:
        f.write(body)
    with open(path + ".info.json", "w") as f:
        json.dump(info, f, indent=1, sort_keys=True)
    return path


def describe_lab(d):
    txt = bytes(d["text"]).decode("latin1") if isinstance(d.get("text"), list) else ""
    return "%s %r %s  -> %s" % (d["op"], txt, json.dumps({k: d[k] for k in ("item", "names", "values") if k in d}, sort_keys=True)[:500],
                              {k: v["o"] for k, v in d.get("r", {}).items()})


def describe_op(o):
    """One-line rendering of an operation for samples / diagnostics."""
    def val(v):
        t = v.get("t")
        if t in ("S", "B"):
            return "%s'%s'" % ("" if t == "S" else "b", "".join(chr(c) if 32 <= c < 127 else "\\x%02x" % c for c in v["s" if t == "S" else "b"]))
        if t == "N":
            n = v["n"]
            return ("-" if n.get("neg") else "") + ("".join(map(str, n.get("d", []))) or "0") + ("e%d" % n["e"] if n.get("e") else "")
        if t == "M":
            return "{" + ",".join("%s:%s" % (k, val(x)) for k, x in sorted(v["m"].items())) + "}" if isinstance(v["m"], dict) else "{}"
        if t == "L":
            return "[" + ",".join(val(x) for x in v["l"]) + "]"
        return json.dumps({k: x for k, x in v.items()}, sort_keys=True)
    def item(it):
        if not isinstance(it, dict):
            return "{}"
        return "{" + ",".join("%s:%s" % (k, val(v)) for k, v in sorted(it.items())) + "}"
    if o.get("op") in ("Match", "Apply", "MatchText", "ApplyText"):
        return describe_lab(o)
    s = o.get("op", "?")
    for k in ("c", "t"):
        if k in o:
            s += " %s" % o[k]
    if "item" in o:
        s += " " + item(o["item"])
    if "key" in o:
        s += " key=" + item(o["key"])
    if "upd" in o:
        s += " upd=" + json.dumps(o["upd"], sort_keys=True)
    if isinstance(o.get("cond"), dict) and o["cond"].get("some"):
        s += " cond=" + json.dumps(o["cond"]["ast"], sort_keys=True)
    for k in ("index", "mode", "limit", "kind", "del"):
        if k in o:
            s += " %s=%s" % (k, json.dumps(o[k]))
    return s
